package vc

import (
	"fmt"
	"go/types"
	"regexp"
	"strings"

	"golang.org/x/tools/go/ssa"
)

var trackRe = regexp.MustCompile(`\b(ncalls|lastres|lastarg|lastbytes|calledwitharg)\(\s*([A-Za-z_][A-Za-z0-9_$]*)`)
var argSetRe = regexp.MustCompile(`\bcalledwitharg\(\s*([A-Za-z_][A-Za-z0-9_$]*)\s*,\s*(\d+)`)

func modeOf(arith, floats string) Mode {
	return Mode{BV: arith == "bv", FPOrder: floats == "order"}
}

// VerifyFunc generates the obligations of one function under contract.
func (e *Engine) VerifyFunc(b Bound) (u *Unit) {
	c, fn := b.C, b.Fn
	pkgName := ""
	if p := fnPkg(fn); p != nil {
		pkgName = p.Pkg.Name()
	}
	uname := pkgName + "." + c.Key
	if _, rel := e.FuncKeyOf(fn); rel != c.Key && stripTypeArgs(rel) == c.Key {
		// an instance of a generic function: the unit is named after the instance
		uname = pkgName + "." + strings.ReplaceAll(shortenPkgPaths(rel), ", ", ",")
	}
	u = newUnit(e, uname, modeOf(c.Arith, c.Floats))
	u.FuncKey = c.Key
	u.PkgPath = c.PkgPath
	u.contract = c
	u.Timeout = c.Timeout
	for k, v := range c.Safety {
		u.safety[k] = v
	}
	defer func() {
		if r := recover(); r != nil {
			switch rr := r.(type) {
			case unsupported:
				u.Undecided = append(u.Undecided, "outside the subset: "+rr.msg)
			case specErr:
				u.Undecided = append(u.Undecided, "binding: "+rr.msg)
			default:
				panic(r)
			}
		}
	}()
	u.regKey(allocKey, "Int")
	for _, cl := range append(append([]Clause{}, c.Requires...), c.Ensures...) {
		for _, m := range trackRe.FindAllStringSubmatch(cl.Src, -1) {
			u.trackCalls[m[2]] = true
		}
	}
	for _, ls := range c.Loops {
		for _, cl := range ls.Invariants {
			for _, m := range trackRe.FindAllStringSubmatch(cl.Src, -1) {
				u.trackCalls[m[2]] = true
			}
			for _, m := range argSetRe.FindAllStringSubmatch(cl.Src, -1) {
				u.trackArgSets[m[1]+"."+m[2]] = true
			}
		}
	}
	for _, cl := range append(append([]Clause{}, c.Requires...), c.Ensures...) {
		for _, m := range argSetRe.FindAllStringSubmatch(cl.Src, -1) {
			u.trackArgSets[m[1]+"."+m[2]] = true
		}
	}
	fr := u.newFrame(fn, 0, nil)
	fr.top = true
	fr.contract = c
	entry := &state{over: map[string]string{}, base: &entryProv{tag: "entry", cache: map[string]string{}}, u: u}
	u.entryState = entry
	alloc0 := entry.get(u, allocKey)
	mkParam := func(name string, t types.Type, isRecv bool) Val {
		srt := u.sortOf(t)
		n := q("in!" + name)
		u.emit("(declare-const %s %s)", n, srt)
		if ti := u.typeInvariant(n, t, 0); ti != "" {
			u.assert(ti)
		}
		if isRefLike(t) {
			u.assert("(<= " + refOf(n, t) + " " + alloc0 + ")")
		}
		if isRecv {
			if _, ok := t.Underlying().(*types.Pointer); ok {
				u.assert("(> " + n + " 0)")
				u.note("receiver of %s assumed non-nil", c.Key)
			}
		}
		return Val{t: n, typ: t}
	}
	var params, free []Val
	for i, p := range fn.Params {
		params = append(params, mkParam(p.Name(), p.Type(), i == 0 && fn.Signature.Recv() != nil))
	}
	for _, fv := range fn.FreeVars {
		v := mkParam("free."+fv.Name(), fv.Type(), false)
		u.assert("(> " + v.t + " 0)")
		free = append(free, v)
	}
	// assumed facts about package-level variables
	for _, gi := range e.CS.GlobalInvs {
		genv := &specEnv{u: u, st: entry, old: entry, vars: map[string]Val{}, pkgPath: gi.PkgPath}
		if t, err := genv.boolExpr(gi.C.E); err == nil {
			u.assert(t)
			u.globalInvs = append(u.globalInvs, gi)
		}
	}
	// preconditions
	penv := &specEnv{u: u, st: entry, old: entry, vars: map[string]Val{}, pkgPath: c.PkgPath, callee: fn, entryHeld: u.entryHeld}
	for i, p := range fn.Params {
		penv.vars[p.Name()] = params[i]
	}
	pre := "true"
	var pres []string
	for k, rq := range c.Requires {
		penv.fr = nil
		t, err := penv.boolExprWithFree(rq.E, fn, free)
		if err != nil {
			u.bindingError(fmt.Sprintf("requires %d: %v", k+1, err))
			continue
		}
		pres = append(pres, t)
		penv.recordHyps(rq.E, "")
	}
	penv.entryHeld = nil
	u.entryHeldReady = true
	for i := 0; i+1 < len(u.pendingHeld); i += 2 {
		u.entryHeldAssume(u.pendingHeld[i], u.pendingHeld[i+1])
	}
	u.pendingHeld = nil
	if len(pres) > 0 {
		pre = u.define("pre", "Bool", "(and true "+strings.Join(pres, " ")+")")
	}
	u.assert(pre)
	cov := u.addObl("cover.pre", "precondition is satisfiable (vacuity guard)", e.pos(fn.Pos()), "true", "true")
	cov.Cover = true
	if c.Trusted {
		u.note("contract of %s is trusted: body not verified", c.Key)
		return u
	}
	if c.HasMod {
		e.resolveFrame(u, c, fn, params, free, entry)
	}
	fr.run(params, free, entry, "true")
	for name := range c.Before {
		if !u.beforeSeen[name] {
			// the call the clause speaks about is gone: no obligation can be generated for it
			u.UndecidedGoals = append(u.UndecidedGoals, fmt.Sprintf("binding: 'before %s requires ...' matches no call in the current body", name))
		}
	}
	if c.HasMod {
		e.frameObligations(u, fr, c, fn, params, free, entry)
	}
	if false {
		var wrote []string
		for _, w := range fr.written {
			for k := range w {
				if strings.HasPrefix(k, "whole|") || strings.HasPrefix(k, "ref|") {
					continue
				}
				if !strings.HasPrefix(k, "cell.") && k != allocKey && !strings.HasPrefix(k, "M.") {
					wrote = append(wrote, k)
				}
			}
		}
		if len(wrote) > 0 {
			u.addObl("frame", fmt.Sprintf("function declared pure writes no heap location (writes: %v)", wrote), e.pos(fn.Pos()), "true", "false")
		}
	}
	// postconditions
	for k, en := range c.Ensures {
		var goals, extra []string
		ok := true
		for _, r := range fr.rets {
			env := fr.specEnvAt(r.blk, r.st, nil)
			env.inclusive = true
			env.results = r.results
			for i, p := range fn.Params {
				env.vars[p.Name()] = params[i]
			}
			t, ex, err := env.goal(en.E)
			if err != nil {
				u.UndecidedGoals = append(u.UndecidedGoals, fmt.Sprintf("binding: ensures %d: %v", k+1, err))
				ok = false
				break
			}
			extra = append(extra, ex...)
			goals = append(goals, "(=> "+r.cur+" "+t+")")
		}
		if !ok {
			continue
		}
		g := "true"
		if len(goals) == 1 {
			g = goals[0]
		} else if len(goals) > 1 {
			g = "(and " + strings.Join(goals, " ") + ")"
		}
		po := u.addObl("post", "postcondition: "+en.Src, fmt.Sprintf("%s:%d", en.File, en.Line), "true", g)
		po.Extra = extra
		po.Parts = goals
	}
	// a reachable return must exist (vacuity guard on the body encoding)
	if len(fr.rets) > 0 {
		var cs []string
		for _, r := range fr.rets {
			cs = append(cs, r.cur)
		}
		cv := u.addObl("cover.return", "some return point is reachable (vacuity guard)", e.pos(fn.Pos()), "true", "(or false "+strings.Join(cs, " ")+")")
		cv.Cover = true
		// advisory: every single return point; an unreachable one is either dead code or the trace of
		// a contradiction among the assumptions on that path (reported, never a violation by itself)
		if len(fr.rets) > 1 && BlockCovers {
			for _, r := range fr.rets {
				p := e.pos(fn.Pos())
				if n := len(r.blk.Instrs); n > 0 {
					p = e.pos(r.blk.Instrs[n-1].Pos())
				}
				ca := u.addObl("cover.ret", "this return point is reachable (advisory)", p, "true", r.cur)
				ca.Cover = true
				ca.Advisory = true
			}
		}
	}
	return u
}

// boolExprWithFree evaluates a clause where free variables (closures) may be mentioned by name.
func (e *specEnv) boolExprWithFree(x Expr, fn *ssa.Function, free []Val) (string, error) {
	if len(free) > 0 {
		n := *e
		n.vars = map[string]Val{}
		for k, v := range e.vars {
			n.vars[k] = v
		}
		for i, fv := range fn.FreeVars {
			pt := fv.Type().Underlying().(*types.Pointer).Elem()
			p := e.u.ptrFromRef(free[i].t, pt)
			n.vars[fv.Name()] = Val{t: e.u.loadPtr(p, e.st), typ: pt}
		}
		return n.boolExpr(x)
	}
	return e.boolExpr(x)
}

// VerifyLemma generates the obligation of a pure lemma over spec functions.
func (e *Engine) VerifyLemma(lm *Lemma) (u *Unit) {
	pkgName := lm.PkgPath
	if p, ok := e.PkgByPath[lm.PkgPath]; ok {
		pkgName = p.Name
	}
	if pkgName == "" {
		pkgName = "extern"
	}
	u = newUnit(e, pkgName+".lemma."+lm.Name, modeOf(lm.Arith, lm.Floats))
	u.FuncKey = "lemma " + lm.Name
	u.PkgPath = lm.PkgPath
	u.Timeout = lm.Timeout
	u.contract = &Contract{Props: lm.Props, Key: "lemma " + lm.Name, PkgPath: lm.PkgPath}
	defer func() {
		if r := recover(); r != nil {
			switch rr := r.(type) {
			case unsupported:
				u.Undecided = append(u.Undecided, "outside the subset: "+rr.msg)
			case specErr:
				u.Undecided = append(u.Undecided, "binding: "+rr.msg)
			default:
				panic(r)
			}
		}
	}()
	u.regKey(allocKey, "Int")
	st := &state{over: map[string]string{}, base: &entryProv{tag: "entry", cache: map[string]string{}}}
	env := &specEnv{u: u, st: st, old: st, vars: map[string]Val{}, pkgPath: lm.PkgPath}
	for _, p := range lm.Params {
		t, err := e.ResolveType(lm.PkgPath, p.Type)
		if err != nil {
			u.bindingError(err.Error())
			return u
		}
		n := q("in!" + p.Name)
		u.emit("(declare-const %s %s)", n, u.sortOf(t))
		if ti := u.typeInvariant(n, t, 0); ti != "" {
			u.assert(ti)
		}
		env.vars[p.Name] = Val{t: n, typ: t}
	}
	var hyps []string
	for _, a := range lm.Assumes {
		t, err := env.boolExpr(a.E)
		if err != nil {
			u.bindingError(err.Error())
			return u
		}
		hyps = append(hyps, t)
		env.recordHyps(a.E, "")
	}
	// lengths of the string / slice parameters are natural instantiation points
	for _, p := range lm.Params {
		v := env.vars[p.Name]
		if isString(v.typ) {
			u.extraCands = append(u.extraCands, "(S_len "+v.t+")")
		} else if _, ok := v.typ.Underlying().(*types.Slice); ok {
			u.extraCands = append(u.extraCands, "(s_len "+v.t+")")
		}
	}
	hyp := "true"
	if len(hyps) > 0 {
		hyp = "(and true " + strings.Join(hyps, " ") + ")"
	}
	cv := u.addObl("cover.hyp", "lemma hypotheses are satisfiable (vacuity guard)", fmt.Sprintf("%s:%d", lm.File, lm.Line), "true", hyp)
	cv.Cover = true
	g, extra, err := env.goal(lm.Body.E)
	if err != nil {
		u.bindingError(err.Error())
		return u
	}
	lo := u.addObl("lemma", "lemma: "+lm.Body.Src, fmt.Sprintf("%s:%d", lm.File, lm.Line), hyp, g)
	lo.Extra = extra
	return u
}

// frameObligations: every heap key the body writes must be covered by the modifies clause; for
// keys named through an object, all other objects that existed at entry are unchanged.
func (e *Engine) frameObligations(u *Unit, fr *frame, c *Contract, fn *ssa.Function, params, free []Val, entry *state) {
	for _, m := range c.Modifies {
		if m == "*" {
			return
		}
	}
	env := &specEnv{u: u, st: entry, old: entry, vars: map[string]Val{}, pkgPath: c.PkgPath, callee: fn}
	for i, p := range fn.Params {
		env.vars[p.Name()] = params[i]
	}
	if len(free) > 0 {
		env.freeCells = map[string]*Ptr{}
		for i, fv := range fn.FreeVars {
			env.freeCells[fv.Name()] = u.ptrFromRef(free[i].t, fv.Type().Underlying().(*types.Pointer).Elem())
		}
	}
	allowed := map[string][]string{} // key -> refs ("" = whole)
	for k, rs := range u.allowedRefs {
		allowed[k] = append(allowed[k], rs...)
	}
	for k := range u.allowedWhole {
		allowed[k] = append(allowed[k], "")
	}
	_ = env
	written := map[string]bool{}
	all := false
	for _, w := range fr.written {
		for k := range w {
			if k == "*" {
				all = true
			}
			if strings.HasPrefix(k, "whole|") || strings.HasPrefix(k, "ref|") || k == allocKey || k == "*" {
				continue
			}
			if strings.HasPrefix(k, "cell.") || strings.HasPrefix(k, "iter.") || strings.HasPrefix(k, "Blk.") || strings.HasPrefix(k, "Held.local.") ||
				strings.HasPrefix(k, "Calls.") || strings.HasPrefix(k, "Arg.") || strings.HasPrefix(k, "Res.") || strings.HasPrefix(k, "CalledWith.") {
				continue
			}
			written[k] = true
		}
	}
	pos := e.pos(fn.Pos())
	if all {
		u.addObl("frame", "the body calls code without a contract (whole heap havoc'd): the modifies clause cannot be established", pos, "true", "false")
		return
	}
	alloc0 := entry.get(u, allocKey)
	for _, k := range sortedKeys(written) {
		refs, ok := allowed[k]
		if !ok {
			if !strings.HasPrefix(u.keySort[k], "(Array Int ") {
				u.addObl("frame", fmt.Sprintf("%s is written but not listed in the modifies clause", k), pos, "true", "false")
				continue
			}
			refs = nil // only objects allocated by the function itself may change
		}
		whole := false
		for _, r := range refs {
			if r == "" {
				whole = true
			}
		}
		if whole {
			continue
		}
		var goals []string
		for _, r := range fr.rets {
			cond := "(<= r!f " + alloc0 + ")"
			for _, x := range refs {
				cond += " (not (= r!f " + x + "))"
			}
			goals = append(goals, fmt.Sprintf("(=> %s (forall ((r!f Int)) (=> (and %s) (= (select %s r!f) (select %s r!f)))))", r.cur, cond, r.st.get(u, k), entry.get(u, k)))
		}
		if len(goals) > 0 {
			what := "only objects allocated by the function"
			if len(refs) > 0 {
				what = "only the objects named in the modifies clause (and fresh ones)"
			}
			u.addObl("frame", fmt.Sprintf("%s: %s change", k, what), pos, "true", "(and true "+strings.Join(goals, " ")+")")
		}
	}
}

// resolveFrame evaluates the modifies clause in the entry state (before the body is translated)
func (e *Engine) resolveFrame(u *Unit, c *Contract, fn *ssa.Function, params, free []Val, entry *state) {
	u.allowedRefs = map[string][]string{}
	u.allowedWhole = map[string]bool{}
	for _, m := range c.Modifies {
		if m == "*" {
			return
		}
	}
	env := &specEnv{u: u, st: entry, old: entry, vars: map[string]Val{}, pkgPath: c.PkgPath, callee: fn}
	for i, p := range fn.Params {
		env.vars[p.Name()] = params[i]
	}
	if len(free) > 0 {
		env.freeCells = map[string]*Ptr{}
		for i, fv := range fn.FreeVars {
			env.freeCells[fv.Name()] = u.ptrFromRef(free[i].t, fv.Type().Underlying().(*types.Pointer).Elem())
		}
	}
	for _, m := range c.Modifies {
		ts, ok := env.resolveModifies(m)
		if !ok {
			u.bindingError(fmt.Sprintf("modifies clause %q does not denote a heap location", m))
			continue
		}
		for _, t := range ts {
			if t.ref == "" {
				u.allowedWhole[t.key] = true
			} else {
				u.allowedRefs[t.key] = append(u.allowedRefs[t.key], t.ref)
			}
		}
	}
	u.frameInv = true
}

// shortenPkgPaths: github.com/x/y/pkg.T -> pkg.T inside a function name
func shortenPkgPaths(s string) string {
	var b strings.Builder
	i := 0
	for i < len(s) {
		j := i
		for j < len(s) && (isIdentByte(s[j]) || s[j] == '/' || s[j] == '.' || s[j] == '-') {
			j++
		}
		if j > i {
			tok := s[i:j]
			if k := strings.LastIndex(tok, "/"); k >= 0 {
				tok = tok[k+1:]
			}
			b.WriteString(tok)
			i = j
			continue
		}
		b.WriteByte(s[i])
		i++
	}
	return b.String()
}
