package vc

// Goal-directed instantiation: bounded universal goals are skolemised, and every bounded
// universal hypothesis assumed in the unit (preconditions, assumed loop invariants, callee
// postconditions) is additionally instantiated at the goal's skolem constants. The
// quantified hypotheses stay asserted as well; the instances only help the solvers.

import (
	"os"
	"fmt"
	"go/types"
	"strings"
)

type hyp struct {
	env   *specEnv
	q     *EQuant
	guard string
}

func (e *specEnv) snapshot() *specEnv {
	n := *e
	if e.st != nil {
		n.st = e.st.clone()
		n.st.ws = nil
	}
	return &n
}

// recordHyps remembers the positive bounded foralls of an assumed clause.
func (e *specEnv) recordHyps(x Expr, guard string) {
	defer func() {
		if r := recover(); r != nil {
			if _, ok := r.(specErr); ok {
				return
			}
			if _, ok := r.(unsupported); ok {
				return
			}
			panic(r)
		}
	}()
	e.snapshot().recordHypsRec(x, guard)
}

func andTerm(a, b string) string {
	if a == "" || a == "true" {
		return b
	}
	if b == "" || b == "true" {
		return a
	}
	return "(and " + a + " " + b + ")"
}

func (e *specEnv) recordHypsRec(x Expr, guard string) {
	switch n := x.(type) {
	case *EBinary:
		if n.Op == "&&" {
			e.recordHypsRec(n.X, guard)
			e.recordHypsRec(n.Y, guard)
			return
		}
		if n.Op == "==>" {
			g := e.term(e.eval(n.X, tBool), tBool)
			e.recordHypsRec(n.Y, andTerm(guard, g))
			return
		}
	case *EQuant:
		if n.Forall && n.Lo != nil {
			e.u.hyps = append(e.u.hyps, hyp{env: e, q: n, guard: guard})
		}
		if n.Forall && n.Lo == nil && !n.Sum {
			e.u.hypsV = append(e.u.hypsV, hyp{env: e, q: n, guard: guard})
		}
	}
}

func (e *specEnv) rangeTerm(n *EQuant, k string) string {
	m := e.u.mode
	lo := e.term(e.eval(n.Lo, tInt), tInt)
	hi := e.term(e.eval(n.Hi, tInt), tInt)
	return "(and " + m.cmp("<=", lo, k, true) + " " + m.cmp("<", k, hi, true) + ")"
}

// instTerm: term of x conjoined with instances (at the given terms) of the positive bounded foralls inside x.
func (e *specEnv) instTerm(x Expr, at []string, depth int) string {
	switch n := x.(type) {
	case *EBinary:
		if n.Op == "&&" {
			return "(and " + e.instTerm(n.X, at, depth) + " " + e.instTerm(n.Y, at, depth) + ")"
		}
		if n.Op == "==>" {
			return "(=> " + e.term(e.eval(n.X, tBool), tBool) + " " + e.instTerm(n.Y, at, depth) + ")"
		}
	case *EQuant:
		if n.Forall && n.Lo != nil && depth < 3 {
			parts := []string{e.term(e.eval(n, tBool), tBool)}
			for _, k := range at {
				inner := e.with(n.Var, Val{t: k, typ: tInt})
				parts = append(parts, "(=> "+e.rangeTerm(n, k)+" "+inner.instTerm(n.Body, at, depth+1)+")")
			}
			return "(and " + strings.Join(parts, " ") + ")"
		}
	}
	if n, ok := x.(*EQuant); ok && !n.Forall && !n.Sum && n.Lo != nil && depth < 3 && e.u.collectW {
		lo, hi := e.eval(n.Lo, tInt), e.eval(n.Hi, tInt)
		if !(lo.lit != nil && hi.lit != nil) {
			u := e.u
			w := u.declConst("wit_"+n.Var, u.mode.idxSort())
			u.witnesses = append(u.witnesses, w, e.term(hi, tInt))
			inner := e.with(n.Var, Val{t: w, typ: tInt})
			return "(and " + e.rangeTerm(n, w) + " " + inner.term(inner.eval(n.Body, tBool), tBool) + ")"
		}
	}
	return e.term(e.eval(x, tBool), tBool)
}

// goalSkolem translates a goal clause, skolemising its positive bounded foralls.
func (e *specEnv) goalSkolem(x Expr, sk *[]string) string {
	u := e.u
	switch n := x.(type) {
	case *EBinary:
		if n.Op == "&&" {
			return "(and " + e.goalSkolem(n.X, sk) + " " + e.goalSkolem(n.Y, sk) + ")"
		}
		if n.Op == "==>" {
			return "(=> " + e.term(e.eval(n.X, tBool), tBool) + " " + e.goalSkolem(n.Y, sk) + ")"
		}
	case *EQuant:
		if n.Forall && n.Lo == nil && !n.Sum {
			// typed universal goal: a fresh constant of the type stands for the bound variable, so
			// that existentials underneath get their candidate witnesses
			if ty, err := e.resolveType(n.Type); err == nil {
				k := u.declConst("skv_"+n.Var, u.sortOf(ty))
				if u.collectKeys {
					// typed universal hypotheses are instantiated at this constant too
					u.keyCands = append(u.keyCands, keyCand{ty, k})
				}
				inner := e.with(n.Var, Val{t: k, typ: ty})
				body := inner.goalSkolem(n.Body, sk)
				if ti := u.typeInvariant(k, ty, 0); ti != "" {
					return "(=> " + ti + " " + body + ")"
				}
				return body
			}
		}
		if n.Forall && n.Lo != nil {
			lo, hi := e.eval(n.Lo, tInt), e.eval(n.Hi, tInt)
			if lo.lit != nil && hi.lit != nil {
				break // constant bounds: expanded by eval
			}
			var k string
			if e.u.skReuse != nil && e.u.skPos < len(e.u.skReuse) {
				k = e.u.skReuse[e.u.skPos]
				e.u.skPos++
			} else {
				k = u.declConst("sk_"+n.Var, u.mode.idxSort())
			}
			*sk = append(*sk, k)
			inner := e.with(n.Var, Val{t: k, typ: tInt})
			return "(=> " + e.rangeTerm(n, k) + " " + inner.goalSkolem(n.Body, sk) + ")"
		}
	}
	if n, ok := x.(*EQuant); ok && !n.Forall && !n.Sum && n.Lo != nil && len(e.u.witnesses) > 0 {
		parts := []string{e.term(e.eval(x, tBool), tBool)}
		seen := map[string]bool{}
		// candidate witnesses: those of the existential hypotheses, and the two ends of the range
		// (the element just appended is the last one)
		cands := append([]string{}, e.u.witnesses...)
		func() {
			defer func() { recover() }()
			lo := e.term(e.eval(n.Lo, tInt), tInt)
			hi := e.term(e.eval(n.Hi, tInt), tInt)
			if e.u.mode.BV {
				cands = append(cands, lo, "(bvsub "+hi+" "+e.u.mode.idxLit(1)+")")
			} else {
				cands = append(cands, lo, "(- "+hi+" 1)")
			}
		}()
		for _, w := range cands {
			if seen[w] {
				continue
			}
			seen[w] = true
			inner := e.with(n.Var, Val{t: w, typ: tInt})
			parts = append(parts, "(and "+e.rangeTerm(n, w)+" "+inner.term(inner.eval(n.Body, tBool), tBool)+")")
		}
		return "(or " + strings.Join(parts, " ") + ")"
	}
	return e.term(e.eval(x, tBool), tBool)
}

// goal translates a goal clause and returns extra assertions (hypothesis instances).
func (e *specEnv) goal(x Expr) (g string, extra []string, err error) {
	defer func() {
		if r := recover(); r != nil {
			switch rr := r.(type) {
			case specErr:
				err = fmt.Errorf("%s in %q", rr.msg, x.String())
			case unsupported:
				err = fmt.Errorf("%s in %q", rr.msg, x.String())
			default:
				panic(r)
			}
		}
	}()
	var sk []string
	e.u.keyCands = nil
	e.u.collectKeys = true
	g = e.goalSkolem(x, &sk)
	e.u.collectKeys = false
	// typed universal hypotheses at the keys of the goal; the witnesses of existentials inside
	// these instances become candidates for the goal's own existentials (second pass below)
	e.u.witnesses = nil
	e.u.collectW = true
	keyInst := e.u.keyInstances()
	e.u.collectW = false
	keyWit := e.u.witnesses
	defer func() {
		if err == nil {
			for _, l := range keyInst {
				extra = append(extra, plusMark+l)
			}
		}
	}()
	if len(sk) == 0 && len(e.u.extraCands) == 0 {
		if len(keyWit) > 0 {
			e.u.witnesses = keyWit
			var sk2 []string
			g = e.goalSkolem(x, &sk2)
			e.u.witnesses = nil
		}
		return g, nil, nil
	}
	at := append([]string{}, sk...)
	at = append(at, e.u.mode.idxLit(0))
	at = append(at, e.u.extraCands...)
	// neighbours of the skolem points (facts about adjacent elements: sortedness, shifted copies):
	// only in the additional instance set
	var neigh []string
	for _, k := range sk {
		if e.u.mode.BV {
			neigh = append(neigh, "(bvadd "+k+" "+e.u.mode.idxLit(1)+")", "(bvsub "+k+" "+e.u.mode.idxLit(1)+")")
		} else {
			neigh = append(neigh, "(+ "+k+" 1)", "(- "+k+" 1)")
		}
	}
	base := append([]string{}, at...)
	for _, gs := range e.u.ghostSyms {
		// ghost index maps are candidates only at program points after the call that introduced them
		if gb := e.u.ghostBlock[gs]; gb != nil && e.at != nil && e.fr != nil && gb.Parent() == e.at.Parent() {
			if !(gb == e.at && e.inclusive) && !gb.Dominates(e.at) {
				continue
			}
			if gb == e.at && !e.inclusive {
				continue
			}
		}
		for _, k := range base {
			at = append(at, "("+gs+" "+k+")")
		}
	}
	e.u.witnesses = append([]string{}, keyWit...)
	e.u.collectW = true
	extra = e.u.instancesAt(at)
	e.u.collectW = false
	if len(neigh) > 0 {
		have := map[string]bool{}
		for _, l := range extra {
			have[l] = true
		}
		savedW := e.u.witnesses
		for _, l := range e.u.instancesAt(append(append([]string{}, neigh...), at...)) {
			if !have[l] {
				have[l] = true
				extra = append(extra, plusMark+l)
			}
		}
		e.u.witnesses = savedW
	}
	if len(e.u.witnesses) > 0 {
		// second pass: goal existentials get the hypothesis witnesses as candidate disjuncts
		e.u.skReuse, e.u.skPos = sk, 0
		var sk2 []string
		g = e.goalSkolem(x, &sk2)
		e.u.skReuse = nil
		e.u.witnesses = nil
	}
	return g, extra, nil
}

func (u *Unit) instancesAt(sk []string) []string {
	var out []string
	for _, h := range u.hyps {
		func() {
			defer func() {
				if r := recover(); r != nil {
					if _, ok := r.(specErr); ok {
						return
					}
					if _, ok := r.(unsupported); ok {
						return
					}
					panic(r)
				}
			}()
			for _, k := range sk {
				inner := h.env.with(h.q.Var, Val{t: k, typ: tInt})
				body := inner.instTerm(h.q.Body, sk, 1)
				t := "(=> " + andTerm(h.guard, h.env.rangeTerm(h.q, k)) + " " + body + ")"
				out = append(out, "(assert "+t+")")
			}
		}()
	}
	return out
}

// keyInstances: the typed universal hypotheses (forallv) instantiated at the map keys the goal
// mentions; a key that is read from the heap also gets its typing fact (an instance of the heap
// typing axiom, which the lighter variants of an obligation leave out).
func (u *Unit) keyInstances() []string {
	var out []string
	cands := u.keyCands
	u.keyCands = nil
	if len(cands) == 0 || len(u.hypsV) == 0 || os.Getenv("GOVC_NO_KEYINST") != "" {
		return nil
	}
	for _, c := range cands {
		if strings.HasPrefix(c.term, "(select ") {
			if ti := u.typeInvariant(c.term, c.typ, 0); ti != "" {
				out = append(out, "(assert "+ti+")")
			}
		}
	}
	for _, h := range u.hypsV {
		func() {
			defer func() {
				if r := recover(); r != nil {
					if _, ok := r.(specErr); ok {
						return
					}
					if _, ok := r.(unsupported); ok {
						return
					}
					panic(r)
				}
			}()
			ty, err := h.env.resolveType(h.q.Type)
			if err != nil {
				return
			}
			for _, c := range cands {
				if !types.Identical(ty, c.typ) {
					continue
				}
				inner := h.env.with(h.q.Var, Val{t: c.term, typ: ty})
				body := inner.instTerm(h.q.Body, nil, 1)
				g := h.guard
				if ti := u.typeInvariant(c.term, ty, 0); ti != "" {
					g = andTerm(g, ti)
				}
				if g == "" {
					g = "true"
				}
				out = append(out, "(assert (=> "+g+" "+body+"))")
			}
		}()
	}
	return out
}
