package vc

import (
	"go/token"
	"sort"
	"fmt"
	"regexp"
	"go/types"
	"strings"

	"golang.org/x/tools/go/ssa"
)

const maxInlineDepth = 6

var observerRe = regexp.MustCompile(`\b(callarg|callres|ncalls|lastarg|lastres|lastbytes)\(`)

func (fr *frame) call(v ssa.Value, c *ssa.CallCommon) Val {
	u := fr.u
	pos := v.(ssa.Instruction)
	// builtins
	if b, ok := c.Value.(*ssa.Builtin); ok {
		return fr.builtin(b, c, pos)
	}
	var callee *ssa.Function
	var binds []Val
	var recv *Val
	if c.IsInvoke() {
		rv := fr.val(c.Value)
		if rv.dyn != nil {
			// statically known dynamic type: resolve the method
			ms := u.eng.Prog.MethodSets.MethodSet(rv.dyn)
			if sel := ms.Lookup(c.Method.Pkg(), c.Method.Name()); sel != nil {
				callee = u.eng.Prog.MethodValue(sel)
				r := *rv.dynV
				recv = &r
			}
		}
		if callee == nil {
			return fr.invokeCall(v, c, rv)
		}
	} else {
		fv := fr.val(c.Value)
		if fv.fn == nil {
			return fr.dynamicCall(v, c, fv)
		}
		callee = fv.fn
		binds = fv.binds
	}
	var args []Val
	if recv != nil {
		args = append(args, *recv)
	}
	for _, a := range c.Args {
		args = append(args, fr.val(a))
	}
	return fr.callFunction(v, callee, args, binds, pos)
}

func resultVal(v ssa.Value, rs []Val) Val {
	sig := v.Type()
	if tup, ok := sig.(*types.Tuple); ok {
		if tup.Len() == 0 {
			return Val{typ: sig}
		}
		return Val{typ: sig, tup: rs}
	}
	if len(rs) == 1 {
		r := rs[0]
		return r
	}
	return Val{typ: sig}
}

func (fr *frame) callFunction(v ssa.Value, callee *ssa.Function, args, binds []Val, pos ssa.Instruction) Val {
	u := fr.u
	if fr.callLog == nil {
		fr.callLog = map[string][][]Val{}
	}
	nm := stripTypeArgs(callee.Name()) // instances of a generic function are recorded under its plain name
	fr.callLog[nm] = append(fr.callLog[nm], args)
	fr.notePos(nm, pos)
	fr.beforeCall(nm, args, pos)
	var res Val
	if u.trackCalls[nm] {
		res = fr.trackedCall(v, callee, args, binds, pos)
	} else {
		res = fr.callFunction2(v, callee, args, binds, pos)
	}
	if fr.resLog == nil {
		fr.resLog = map[string][]Val{}
	}
	fr.resLog[nm] = append(fr.resLog[nm], res)
	fr.afterCall(nm, args, res, callee.Signature)
	return res
}

// trackedCall maintains the ghost call record of functions named in ncalls()/lastarg()/lastres()
func (fr *frame) trackedCall(v ssa.Value, callee *ssa.Function, args, binds []Val, pos ssa.Instruction) Val {
	u := fr.u
	name := stripTypeArgs(callee.Name())
	ck := u.regKey("Calls."+name, u.mode.idxSort())
	fr.st.set(ck, u.idxAdd(fr.st.get(u, ck), u.mode.idxLit(1)))
	for i, a := range args {
		if a.typ == nil {
			continue
		}
		func() {
			defer func() {
				if r := recover(); r != nil {
					if _, ok := r.(unsupported); !ok {
						panic(r)
					}
				}
			}()
			t := fr.term(a)
			srt := u.sortOf(a.typ)
			k := u.regKey(fmt.Sprintf("Arg.%s.%d.%s", name, i, sortTag(srt)), srt)
			u.argKeyType[k] = a.typ
			fr.st.set(k, t)
			fr.snapshotBytes(name, i, a, t)
			fr.noteArgSet(name, i, a, t)
		}()
	}
	res := fr.callFunction2(v, callee, args, binds, pos)
	rs := callee.Signature.Results()
	if rs.Len() > 0 {
		last := res
		if res.tup != nil {
			last = res.tup[len(res.tup)-1]
		}
		lt := rs.At(rs.Len() - 1).Type()
		if _, ok := lt.Underlying().(*types.Interface); ok && last.t != "" {
			rk := u.regKey("Res."+name, "Ifc")
			fr.st.set(rk, last.t)
		}
	}
	return res
}

func (fr *frame) callFunction2(v ssa.Value, callee *ssa.Function, args, binds []Val, pos ssa.Instruction) Val {
	u := fr.u
	if r, ok := fr.intrinsic(v, callee, args, pos); ok {
		return r
	}
	if r, ok := fr.lockIntrinsic(v, callee, args, pos); ok {
		return r
	}
	ct := u.eng.ContractFor(callee)
	if ct == nil && callee.Origin() != nil {
		ct = u.eng.ContractFor(callee.Origin())
	}
	inline := false
	switch {
	case ct != nil && ct.Inline:
		inline = true
	case ct == nil && callee.Parent() != nil && len(callee.Blocks) > 0 && fr.closureInlineOK(callee):
		// anonymous function called directly: inline
		inline = true
	case ct == nil && autoInline(callee):
		inline = true
	}
	if inline && fr.depth < maxInlineDepth && len(callee.Blocks) > 0 {
		ct2 := ct
		return fr.inlineCall(v, callee, args, binds, ct2)
	}
	if ct != nil {
		ct.used = true
		return fr.contractCall(v, callee, ct, args, binds, pos)
	}
	return fr.unknownCall(v, callee.String(), args, callee.Signature)
}

// anonymous functions called directly (or deferred) are inlined when they are small and loop-free
func (fr *frame) closureInlineOK(callee *ssa.Function) bool {
	if len(callee.Blocks) > 40 {
		return false
	}
	for _, b := range callee.Blocks {
		for _, s := range b.Succs {
			if s.Dominates(b) {
				return false
			}
		}
	}
	return true
}

// small, loop-free library helpers that are verified from their bodies at each use
var autoInlinePkgs = map[string]bool{"encoding/binary": true, "math/bits": true, "cmp": true}

func autoInline(fn *ssa.Function) bool {
	pkg := fnPkg(fn)
	if pkg == nil || !autoInlinePkgs[pkg.Pkg.Path()] {
		return false
	}
	if len(fn.Blocks) == 0 || len(fn.Blocks) > 12 {
		return false
	}
	for _, b := range fn.Blocks {
		for _, s := range b.Succs {
			if s.Dominates(b) {
				return false
			}
		}
	}
	return true
}

func (fr *frame) inlineCall(v ssa.Value, callee *ssa.Function, args, binds []Val, ct *Contract) Val {
	u := fr.u
	sub := u.newFrame(callee, fr.depth+1, fr.st.ws)
	sub.contract = ct
	sub.run(args, binds, fr.st, fr.cur)
	if len(sub.rets) == 0 {
		// never returns
		fr.assume("false")
		return fr.abstractValue(v, "callee never returns")
	}
	// merge return points
	var ins []mergeIn
	var conds []string
	for _, r := range sub.rets {
		ins = append(ins, mergeIn{r.cur, r.st})
		conds = append(conds, r.cur)
	}
	ws := fr.st.ws
	fr.st = mergeStates(u, sub.tag("ret"), ins)
	fr.st.ws = ws
	if len(conds) == 1 {
		fr.cur = conds[0]
	} else {
		fr.cur = u.define(sub.tag("retreach"), "Bool", "(or "+strings.Join(conds, " ")+")")
	}
	nres := callee.Signature.Results().Len()
	var rs []Val
	for i := 0; i < nres; i++ {
		if len(sub.rets) == 1 {
			rs = append(rs, sub.rets[0].results[i])
			continue
		}
		rt := callee.Signature.Results().At(i).Type()
		same := true
		for _, r := range sub.rets[1:] {
			if r.results[i].t != sub.rets[0].results[i].t || r.results[i].t == "" {
				same = false
			}
		}
		if same {
			rs = append(rs, sub.rets[0].results[i])
			continue
		}
		term := fr.term(sub.rets[len(sub.rets)-1].results[i])
		for k := len(sub.rets) - 2; k >= 0; k-- {
			term = fmt.Sprintf("(ite %s %s %s)", sub.rets[k].cur, fr.term(sub.rets[k].results[i]), term)
		}
		rs = append(rs, Val{t: u.define(sub.tag("res"), u.sortOf(rt), term), typ: rt})
	}
	return resultVal(v, rs)
}

// contractCall: modular use of a callee contract: check pre, havoc modifies, assume post.
func (fr *frame) contractCall(v ssa.Value, callee *ssa.Function, ct *Contract, args, binds []Val, pos ssa.Instruction) Val {
	u := fr.u
	pre := fr.st.clone()
	env := &specEnv{u: u, fr: nil, st: pre, old: pre, vars: map[string]Val{}, pkgPath: ct.PkgPath, callee: callee}
	// captured variables of a closure: the name denotes the current content of the captured cell
	if len(binds) == len(callee.FreeVars) && len(binds) > 0 {
		env.freeCells = map[string]*Ptr{}
		for i, fv := range callee.FreeVars {
			env.freeCells[fv.Name()] = fr.asPtr(binds[i], fv.Type())
		}
	}
	params := callee.Params
	for i, p := range params {
		if i < len(args) {
			env.vars[p.Name()] = args[i]
		}
	}
	for k, rq := range ct.Requires {
		t, extra, err := env.goal(rq.E)
		if err != nil {
			u.bindingError(fmt.Sprintf("precondition %d of %s: %v", k+1, ct.Key, err))
			continue
		}
		if fr.contract != nil && fr.contract.AssumePre[shortCalleeName(ct.Key)] {
			u.note("%s: precondition of %s assumed at the call site (assumepre): %s", fr.fn.Name(), ct.Key, rq.Src)
		} else if o := fr.obligeO("pre", fmt.Sprintf("precondition of %s: %s", ct.Key, rq.Src), pos.Pos(), t); o != nil {
			o.Extra = extra
			if len(ct.Props) > 0 {
				// a caller-side obligation belongs to the properties of the callee's contract
				o.Props = unionProps(o.Props, ct.Props)
			}
		}
		if t2, err := env.boolExpr(rq.E); err == nil {
			fr.assume(t2)
		}
	}
	if ct.Locks > 0 {
		fr.lockRankLevel(ct.Locks, ct.Key, pos)
	}
	if ct.Iterates != "" {
		for i, p := range params {
			if p.Name() == ct.Iterates && i < len(args) && args[i].fn != nil {
				fr.iterateClosure(args[i], pos)
				u.note("%s modelled as: calls its argument %s any number of times; the variables the callback writes are havoc'd (constrained by the callback's iterator invariant, if it has one)", ct.Key, p.Name())
			}
		}
	}
	// havoc
	if !ct.HasMod {
		fr.havocAll("call to " + ct.Key + " (contract without modifies clause)")
	} else {
		for _, mk := range ct.Modifies {
			fr.havocKey(mk, env)
		}
	}
	// the callee may allocate: the allocation counter moves forward
	allocPre := fr.st.get(u, allocKey)
	allocates := ct.Allocates
	for _, en := range ct.Ensures {
		if strings.Contains(en.Src, "fresh(") {
			allocates = true
		}
	}
	if allocates {
		// the state of the objects the callee allocates is given by its postcondition only
		u.nfresh++
		ws := fr.st.ws
		prevSt := fr.st
		fr.st = &state{over: map[string]string{}, base: &allocProv{tag: fr.tag(fmt.Sprintf("ac%d", u.nfresh)), prev: prevSt, allocPre: allocPre, cache: map[string]string{}}, ws: ws, u: u}
	}
	allocPost := u.declConst(fr.tag("alloc_after"), "Int")
	u.assert("(>= " + allocPost + " " + allocPre + ")")
	fr.st.set(allocKey, allocPost)
	for _, wi := range ct.WritesArg {
		if wi < len(args) {
			fr.havocThroughArg(args[wi], ct.Key)
		}
	}
	// results
	var rs []Val
	res := callee.Signature.Results()
	for i := 0; i < res.Len(); i++ {
		rs = append(rs, fr.freshOfType(fmt.Sprintf("%s_r%d", callee.Name(), i), res.At(i).Type()))
	}
	post := &specEnv{u: u, st: fr.st, old: pre, vars: env.vars, pkgPath: ct.PkgPath, callee: callee, results: rs, freeCells: env.freeCells, freshBase: allocPre}
	if len(ct.GhostMaps) > 0 {
		post.ghost = map[string]string{}
		for _, g := range ct.GhostMaps {
			sym := u.fresh("ghost_" + g)
			u.emit("(declare-fun %s (%s) %s)", sym, u.mode.idxSort(), u.mode.idxSort())
			post.ghost[g] = sym
			u.ghostSyms = append(u.ghostSyms, sym)
			if u.ghostBlock == nil {
				u.ghostBlock = map[string]*ssa.BasicBlock{}
			}
			u.ghostBlock[sym] = fr.blk
		}
	}
	for k, en := range ct.Ensures {
		if observerRe.MatchString(en.Src) {
			continue // an assertion about the callee's own calls: not visible to callers
		}
		if _, err := post.boolExpr(en.E); err != nil {
			u.note("postcondition %d of %s cannot be used at this call site and is not assumed: %v", k+1, ct.Key, err)
			continue
		}
		guard := fr.cur
		for _, cj := range splitConj(en.E) {
			t, err := post.boolExpr(cj)
			if err != nil {
				continue
			}
			if isQuantConj(cj) {
				// quantified facts are asserted on their own line (guarded by the path condition at
				// the call) so that the instance-only variant of an obligation can leave them out
				u.emit("(assert (=> " + guard + " " + t + "))")
				u.quantHypLines[len(u.lines)-1] = true
			} else {
				fr.assume(t)
			}
		}
		post.recordHyps(en.E, guard)
	}
	if ct.Trusted {
		u.note("trusted contract used: %s", ct.Key)
	}
	return resultVal(v, rs)
}

// havocKey havocs one heap key named in a modifies clause. Forms: a raw key ("M.byte",
// "H.Shard.x", "*"), or an expression such as "*p" / "p.f" / "s[..]" is mapped to its key.
// modTarget: one heap key a modifies item may change; ref == "" means the whole key
type modTarget struct {
	key string
	ref string
}

// resolveModifies maps a modifies item to heap keys (and object references).
// Forms: "*", a raw key, a captured variable of a closure, "field(Type.f)" (all objects),
// "locks(Type.f)" (ghost lock state of a class), or an expression (x.f, *p, m, s).
func (env *specEnv) resolveModifies(mk string) (ts []modTarget, ok bool) {
	u := env.u
	if _, isKey := u.keySort[mk]; isKey {
		return []modTarget{{mk, ""}}, true
	}
	if p, isFree := env.freeCells[mk]; isFree && p.kind == pHeapStruct && len(p.path) == 0 {
		st := p.typ.Underlying().(*types.Struct)
		for f := 0; f < st.NumFields(); f++ {
			ts = append(ts, modTarget{u.keyField(p.typ, f), p.ref})
		}
		return ts, true
	}
	if p, isFree := env.freeCells[mk]; isFree && p.kind == pHeapCell {
		ts = append(ts, modTarget{u.keyCell(p.typ), p.ref})
		if sl, isSl := p.typ.Underlying().(*types.Slice); isSl {
			ts = append(ts, modTarget{u.keyM(sl.Elem()), ""})
		}
		if mt, isMap := p.typ.Underlying().(*types.Map); isMap {
			// a captured map variable: the map object it refers to may be updated
			ref := u.loadPtr(p, env.st)
			ts = append(ts, modTarget{u.keyMapDom(mt), ref}, modTarget{u.keyMapVal(mt), ref}, modTarget{u.keyMapLen(), ref})
		}
		return ts, true
	}
	if strings.HasPrefix(mk, "allcontents(") && strings.HasSuffix(mk, ")") {
		// every backing array of the element type of a slice-typed expression (coarse)
		inner := strings.TrimSuffix(strings.TrimPrefix(mk, "allcontents("), ")")
		if e, err := ParseSpec(inner); err == nil {
			if v, err := env.anyExpr(e, nil); err == nil && v.typ != nil {
				if sl, ok := v.typ.Underlying().(*types.Slice); ok {
					return []modTarget{{u.keyM(sl.Elem()), ""}}, true
				}
			}
		}
		return nil, false
	}
	if strings.HasPrefix(mk, "contents(") && strings.HasSuffix(mk, ")") {
		// the element store of a slice-typed expression (any backing array of that element type)
		inner := strings.TrimSuffix(strings.TrimPrefix(mk, "contents("), ")")
		if e, err := ParseSpec(inner); err == nil {
			if v, err := env.anyExpr(e, nil); err == nil && v.typ != nil {
				if sl, ok := v.typ.Underlying().(*types.Slice); ok {
					// the backing array the slice has now (a re-allocated one is a fresh object: contracts
					// naming contents(...) are treated as allocating)
					return []modTarget{{u.keyM(sl.Elem()), "(s_ref " + v.t + ")"}}, true
				}
			}
		}
		return nil, false
	}
	if mk == "allbitmaps" {
		// the set view of every roaring bitmap (ghost state)
		return []modTarget{{u.roaringKey(), ""}}, true
	}
	if strings.HasPrefix(mk, "bitmap(") && strings.HasSuffix(mk, ")") {
		inner := strings.TrimSuffix(strings.TrimPrefix(mk, "bitmap("), ")")
		if e, err := ParseSpec(inner); err == nil {
			if v, err := env.anyExpr(e, nil); err == nil && v.typ != nil {
				return []modTarget{{u.roaringKey(), env.term(v, v.typ)}}, true
			}
		}
		return nil, false
	}
	for _, pfx := range []string{"field(", "locks("} {
		if strings.HasPrefix(mk, pfx) && strings.HasSuffix(mk, ")") {
			inner := strings.TrimSuffix(strings.TrimPrefix(mk, pfx), ")")
			i := strings.LastIndex(inner, ".")
			if i < 0 {
				return nil, false
			}
			t, err := env.resolveType(inner[:i])
			if err != nil {
				return nil, false
			}
			st, isSt := t.Underlying().(*types.Struct)
			if !isSt {
				return nil, false
			}
			for f := 0; f < st.NumFields(); f++ {
				if st.Field(f).Name() == inner[i+1:] {
					if pfx == "field(" {
						return []modTarget{{u.keyField(t, f), ""}}, true
					}
					return []modTarget{{u.regKey("Held."+shortTypeName(t)+"."+inner[i+1:], "(Array Int Int)"), ""}}, true
				}
			}
			return nil, false
		}
	}
	if e, err := ParseSpec(mk); err == nil {
		if keys, ok := env.keysOfLValue(e); ok {
			ref, hasRef := env.refOfLValue(e)
			for _, k := range keys {
				if hasRef && strings.HasPrefix(u.keySort[k], "(Array Int ") {
					ts = append(ts, modTarget{k, ref})
				} else {
					ts = append(ts, modTarget{k, ""})
				}
			}
			return ts, true
		}
	}
	return nil, false
}

func (fr *frame) havocKey(mk string, env *specEnv) {
	u := fr.u
	if mk == "*" {
		fr.havocAll("modifies *")
		return
	}
	if ts, ok := env.resolveModifies(mk); ok {
		for _, t := range ts {
			srt := u.keySort[t.key]
			if t.ref != "" {
				inner := strings.TrimSuffix(strings.TrimPrefix(srt, "(Array Int "), ")")
				c := u.declConst(fr.tag("hvobj_"+t.key), inner)
				if et, ok := u.keyElem[t.key]; ok && (strings.HasPrefix(t.key, "H.") || strings.HasPrefix(t.key, "C.")) {
					if ti := u.typeInvariant(c, et, 0); ti != "" {
						u.assert(ti)
					}
					if isRefLike(et) {
						u.assert("(<= " + refOf(c, et) + " " + fr.st.get(u, allocKey) + ")")
					}
				}
				nk := u.define(fr.tag("hv_"+t.key), srt, fmt.Sprintf("(store %s %s %s)", fr.st.get(u, t.key), t.ref, c))
				fr.st.setAt(t.key, nk, t.ref)
				continue
			}
			c := u.declConst(fr.tag("hv_"+t.key), srt)
			u.heapTyping(t.key, c)
			fr.st.set(t.key, c)
		}
		return
	}
	u.bindingError(fmt.Sprintf("modifies clause %q does not denote a heap location", mk))
}

func (fr *frame) havocKeyOld(mk string, env *specEnv) {
	u := fr.u
	if mk == "*" {
		fr.havocAll("modifies *")
		return
	}
	hv := func(key string) {
		c := u.declConst(fr.tag("hv_"+key), u.keySort[key])
		u.heapTyping(key, c)
		fr.st.set(key, c)
	}
	if _, ok := u.keySort[mk]; ok {
		hv(mk)
		return
	}
	// a captured variable of a closure: its cell (and, for slices, the element store)
	if p, ok := env.freeCells[mk]; ok && p.kind == pHeapCell {
		k := u.keyCell(p.typ)
		c := u.declConst(fr.tag("hvcell"), u.sortOf(p.typ))
		if ti := u.typeInvariant(c, p.typ, 0); ti != "" {
			u.assert(ti)
		}
		fr.st.setAt(k, fmt.Sprintf("(store %s %s %s)", fr.st.get(u, k), p.ref, c), p.ref)
		if sl, ok := p.typ.Underlying().(*types.Slice); ok {
			hv(u.keyM(sl.Elem()))
			u.assert("(<= (s_ref " + c + ") " + fr.st.get(u, allocKey) + ")")
		}
		return
	}
	// expression forms: only the named object is havoc'd (frame: all other objects are unchanged)
	if e, err := ParseSpec(mk); err == nil {
		if keys, ok := env.keysOfLValue(e); ok {
			ref, hasRef := env.refOfLValue(e)
			for _, k := range keys {
				srt := u.keySort[k]
				if hasRef && strings.HasPrefix(srt, "(Array Int ") {
					inner := strings.TrimSuffix(strings.TrimPrefix(srt, "(Array Int "), ")")
					c := u.declConst(fr.tag("hvobj_"+k), inner)
					cur := fr.st.get(u, k)
					nk := u.define(fr.tag("hv_"+k), srt, fmt.Sprintf("(store %s %s %s)", cur, ref, c))
					if et, ok := u.keyElem[k]; ok && (strings.HasPrefix(k, "H.") || strings.HasPrefix(k, "C.")) {
						if ti := u.typeInvariant(c, et, 0); ti != "" {
							u.assert(ti)
						}
					}
					fr.st.setAt(k, nk, ref)
					continue
				}
				hv(k)
			}
			return
		}
	}
	u.bindingError(fmt.Sprintf("modifies clause %q does not denote a heap location", mk))
}

func (fr *frame) havocAll(why string) { fr.havocAllMark(why, "*") }

// havocAllMark havocs the data heap; mark is "*" for effects of the function itself and
// "*conc" for effects of concurrently running code (not part of the function's own frame).
func (fr *frame) havocAllMark(why, mark string) {
	u := fr.u
	u.note("%s: whole heap havoc'd: %s", fr.fn.Name(), why)
	ws := fr.st.ws
	alloc := fr.st.get(u, u.regKey(allocKey, "Int"))
	// the thread-local ghost lock state survives: unknown code is assumed lock-neutral
	keep := map[string]string{}
	for k := range u.keySort {
		if threadLocalKey(k) {
			keep[k] = fr.st.get(u, k)
		}
	}
	prevSt := fr.st
	fr.st = &state{over: map[string]string{}, base: &hvProv{prev: prevSt, inner: &entryProv{tag: fr.tag(fmt.Sprintf("hv%d", u.nfresh)), cache: map[string]string{}}}, ws: ws, u: u}
	u.nfresh++
	na := fr.st.get(u, allocKey)
	u.assert("(>= " + na + " " + alloc + ")")
	fr.st.markWritten(mark)
	for _, k := range sortedKeys(keep) {
		fr.st.over[k] = keep[k]
	}
	u.note("code without contract is assumed lock-neutral (ghost lock state kept across it)")
	for _, gi := range u.globalInvs {
		genv := &specEnv{u: u, st: fr.st, old: fr.st, vars: map[string]Val{}, pkgPath: gi.PkgPath}
		if t, err := genv.boolExpr(gi.C.E); err == nil {
			fr.assume(t)
		}
	}
}

func (fr *frame) unknownCall(v ssa.Value, name string, args []Val, sig *types.Signature) Val {
	u := fr.u
	if u.eng.pureExtern(name) {
		u.note("call to %s: no effect on modelled state, result unconstrained", name)
	} else {
		// effects through reference arguments: havoc what they can reach (one level)
		touched := false
		for _, a := range args {
			if a.typ == nil {
				continue
			}
			switch tt := a.typ.Underlying().(type) {
			case *types.Slice:
				k := u.keyM(tt.Elem())
				c := u.declConst(fr.tag("hv_"+k), u.keySort[k])
				u.heapTyping(k, c)
				fr.st.set(k, c)
				touched = true
			case *types.Pointer:
				if a.ptr != nil && (a.ptr.kind == pLocal) {
					fr.st.set(a.ptr.cell, u.declConst(fr.tag("hv_cell"), u.keySort[a.ptr.cell]))
					touched = true
				} else {
					fr.havocAll("call to " + name + " with pointer argument and no contract")
					touched = true
				}
			case *types.Map, *types.Signature, *types.Interface, *types.Chan:
				if a.fn == nil && a.dyn == nil {
					fr.havocAll("call to " + name + " with " + tt.String() + " argument and no contract")
					touched = true
				} else if a.fn != nil {
					fr.havocAll("call to " + name + " passing a closure, no contract")
					touched = true
				}
			}
		}
		_ = touched
		u.note("call to %s has no contract: results unconstrained, reference arguments havoc'd", name)
	}
	var rs []Val
	res := sig.Results()
	for i := 0; i < res.Len(); i++ {
		rs = append(rs, fr.freshOfType("ext", res.At(i).Type()))
	}
	return resultVal(v, rs)
}

func (e *Engine) pureExtern(name string) bool {
	for _, p := range []string{"fmt.Errorf", "fmt.Sprintf", "fmt.Sprint", "errors.New", "(github.com/rs/zerolog", "github.com/rs/zerolog", "(*github.com/rs/zerolog", "time.Now", "time.Since", "(time.Time)", "(time.Duration)", "(*github.com/prometheus", "(github.com/prometheus", "strconv.", "(error).Error"} {
		if strings.HasPrefix(name, p) {
			return true
		}
	}
	return false
}

func (fr *frame) invokeCall(v ssa.Value, c *ssa.CallCommon, recv Val) Val {
	var rest []Val
	for _, a := range c.Args {
		rest = append(rest, fr.val(a))
	}
	return fr.invokeCallVals(v, c, recv, rest)
}

// beforeCall: call-site obligations declared with `before CALLEE requires E` (arg0, arg1, ... name
// the call's arguments; other names are resolved at the call point)
func (fr *frame) beforeCall(name string, args []Val, pos ssa.Instruction) {
	if fr.contract == nil || !fr.top {
		return
	}
	if len(fr.contract.Before[name]) > 0 {
		if fr.u.beforeSeen == nil {
			fr.u.beforeSeen = map[string]bool{}
		}
		fr.u.beforeSeen[name] = true
	}
	for k, cl := range fr.contract.Before[name] {
		env := fr.specEnvAt(fr.blk, fr.st, nil)
		env.inclusive = true
		for i, a := range args {
			env.vars[fmt.Sprintf("arg%d", i)] = a
		}
		t, extra, err := env.goal(cl.E)
		if err != nil {
			fr.u.bindingError(fmt.Sprintf("before %s requires %d: %v", name, k+1, err))
			continue
		}
		if o := fr.obligeO("callsite", fmt.Sprintf("before calling %s: %s", name, cl.Src), pos.Pos(), t); o != nil {
			o.Extra = extra
		}
	}
}

func (fr *frame) invokeCallVals(v ssa.Value, c *ssa.CallCommon, recv Val, rest []Val) Val {
	u := fr.u
	name := c.Method.Name()
	fr.beforeCall(name, append([]Val{recv}, rest...), v.(ssa.Instruction))
	if fr.callLog == nil {
		fr.callLog = map[string][][]Val{}
	}
	if fr.resLog == nil {
		fr.resLog = map[string][]Val{}
	}
	fr.callLog[name] = append(fr.callLog[name], append([]Val{recv}, rest...))
	fr.notePos(name, v.(ssa.Instruction))
	if !u.trackCalls[name] {
		r := fr.invokeCallVals2(v, c, recv, rest)
		fr.resLog[name] = append(fr.resLog[name], r)
		fr.afterCall(name, append([]Val{recv}, rest...), r, c.Method.Type().(*types.Signature))
		return r
	}
	defer func() {
		// the tracked path records the result below
	}()
	ck := u.regKey("Calls."+name, u.mode.idxSort())
	fr.st.set(ck, u.idxAdd(fr.st.get(u, ck), u.mode.idxLit(1)))
	for i, a := range rest {
		if a.typ == nil {
			continue
		}
		func() {
			defer func() {
				if r := recover(); r != nil {
					if _, ok := r.(unsupported); !ok {
						panic(r)
					}
				}
			}()
			t := fr.term(a)
			srt := u.sortOf(a.typ)
			k := u.regKey(fmt.Sprintf("Arg.%s.%d.%s", name, i+1, sortTag(srt)), srt)
			u.argKeyType[k] = a.typ
			fr.st.set(k, t)
			fr.snapshotBytes(name, i+1, a, t)
			fr.noteArgSet(name, i+1, a, t)
		}()
	}
	res := fr.invokeCallVals2(v, c, recv, rest)
	sig := c.Method.Type().(*types.Signature)
	if sig.Results().Len() > 0 {
		last := res
		if res.tup != nil {
			last = res.tup[len(res.tup)-1]
		}
		if _, ok := sig.Results().At(sig.Results().Len()-1).Type().Underlying().(*types.Interface); ok && last.t != "" {
			fr.st.set(u.regKey("Res."+name, "Ifc"), last.t)
		}
	}
	fr.resLog[name] = append(fr.resLog[name], res)
	fr.afterCall(name, append([]Val{recv}, rest...), res, c.Method.Type().(*types.Signature))
	return res
}

func (fr *frame) invokeCallVals2(v ssa.Value, c *ssa.CallCommon, recv Val, rest []Val) Val {
	u := fr.u
	// interface method contract: key "(pkg.Iface).Method"
	var args []Val
	args = append(args, recv)
	args = append(args, rest...)
	if recv.dyn != nil {
		ms := u.eng.Prog.MethodSets.MethodSet(recv.dyn)
		if sel := ms.Lookup(c.Method.Pkg(), c.Method.Name()); sel != nil {
			if callee := u.eng.Prog.MethodValue(sel); callee != nil {
				a2 := append([]Val{*recv.dynV}, rest...)
				return fr.callFunction(v, callee, a2, nil, v.(ssa.Instruction))
			}
		}
	}
	name := "(" + shortQual(c.Value.Type()) + ")." + c.Method.Name()
	if ct := u.eng.ifaceContract(c.Value.Type(), c.Method.Name()); ct != nil {
		ct.used = true
		return fr.contractCallSig(v, ct, c.Method.Type().(*types.Signature), args, v.(ssa.Instruction), name)
	}
	return fr.unknownCall(v, name, args, c.Method.Type().(*types.Signature))
}

func shortQual(t types.Type) string {
	return types.TypeString(types.Unalias(t), func(p *types.Package) string { return p.Path() })
}

func (e *Engine) ifaceContract(t types.Type, method string) *Contract {
	full := "(" + shortQual(t) + ")." + method
	if c, ok := e.CS.Funcs["::"+full]; ok {
		return c
	}
	if n, ok := types.Unalias(t).(*types.Named); ok && n.Obj().Pkg() != nil {
		if c, ok := e.CS.Funcs[n.Obj().Pkg().Path()+"::("+n.Obj().Name()+")."+method]; ok {
			return c
		}
	}
	return nil
}

// contractCallSig: like contractCall but for interface methods / func values where only a signature is known.
// Parameter names come from the contract's "ghost params a,b,c" line or default to recv,p0,p1...
func (fr *frame) contractCallSig(v ssa.Value, ct *Contract, sig *types.Signature, args []Val, pos ssa.Instruction, name string) Val {
	return fr.contractCallSigNames(v, ct, sig, args, pos, name, []string{"recv"})
}

func (fr *frame) contractCallSigNames(v ssa.Value, ct *Contract, sig *types.Signature, args []Val, pos ssa.Instruction, name string, names []string) Val {
	u := fr.u
	pre := fr.st.clone()
	env := &specEnv{u: u, st: pre, old: pre, vars: map[string]Val{}, pkgPath: ct.PkgPath}
	for i := 0; i < sig.Params().Len(); i++ {
		n := sig.Params().At(i).Name()
		if n == "" || n == "_" {
			n = fmt.Sprintf("p%d", i)
		}
		names = append(names, n)
	}
	for i, a := range args {
		if i < len(names) {
			env.vars[names[i]] = a
		}
	}
	for k, rq := range ct.Requires {
		t, extra, err := env.goal(rq.E)
		if err != nil {
			u.bindingError(fmt.Sprintf("precondition %d of %s: %v", k+1, ct.Key, err))
			continue
		}
		if fr.contract != nil && fr.contract.AssumePre[shortCalleeName(ct.Key)] {
			u.note("%s: precondition of %s assumed at the call site (assumepre): %s", fr.fn.Name(), ct.Key, rq.Src)
		} else if o := fr.obligeO("pre", fmt.Sprintf("precondition of %s: %s", ct.Key, rq.Src), pos.Pos(), t); o != nil {
			o.Extra = extra
			if len(ct.Props) > 0 {
				// a caller-side obligation belongs to the properties of the callee's contract
				o.Props = unionProps(o.Props, ct.Props)
			}
		}
		if t2, err := env.boolExpr(rq.E); err == nil {
			fr.assume(t2)
		}
	}
	if ct.Invokes != "" {
		// schema contract: the callee calls its function argument exactly once and returns its result
		for i, nm := range names {
			if nm == ct.Invokes && i < len(args) && args[i].fn != nil {
				cl := args[i]
				var cargs []Val
				csig := cl.fn.Signature
				for k := 0; k < csig.Params().Len(); k++ {
					cargs = append(cargs, fr.freshOfType("cbarg", csig.Params().At(k).Type()))
				}
				u.note("%s modelled as: calls its argument %s exactly once and returns its result (assumed schema contract)", name, nm)
				return fr.callFunction(v, cl.fn, cargs, cl.binds, pos)
			}
		}
		u.note("%s: 'invokes %s' could not be resolved to a closure at this call", name, ct.Invokes)
	}
	if ct.Iterates != "" {
		// schema contract: the callee calls its function argument any number of times; what the
		// callback assigns among its captured variables is havoc'd (like a goroutine's captures)
		for i, nm := range names {
			if nm == ct.Iterates && i < len(args) && args[i].fn != nil {
				fr.iterateClosure(args[i], pos)
				u.note("%s modelled as: calls its argument %s any number of times; the variables the callback writes are havoc'd (constrained by the callback's iterator invariant, if it has one), its other effects are those of its contract (assumed schema contract)", name, nm)
			}
		}
	}
	if !ct.HasMod {
		fr.havocAll("call to " + name + " (contract without modifies clause)")
	} else {
		for _, mk := range ct.Modifies {
			fr.havocKey(mk, env)
		}
	}
	// the callee may allocate: the allocation counter moves forward (as in contractCall)
	allocPre := fr.st.get(u, u.regKey(allocKey, "Int"))
	allocates := ct.Allocates
	for _, en := range ct.Ensures {
		if strings.Contains(en.Src, "fresh(") {
			allocates = true
		}
	}
	if allocates && ct.HasMod {
		u.nfresh++
		ws := fr.st.ws
		prevSt := fr.st
		fr.st = &state{over: map[string]string{}, base: &allocProv{tag: fr.tag(fmt.Sprintf("ac%d", u.nfresh)), prev: prevSt, allocPre: allocPre, cache: map[string]string{}}, ws: ws, u: u}
	}
	if ct.HasMod {
		allocPost := u.declConst(fr.tag("alloc_after"), "Int")
		u.assert("(>= " + allocPost + " " + allocPre + ")")
		fr.st.set(allocKey, allocPost)
	}
	for _, wi := range ct.WritesArg {
		if wi < len(args) {
			fr.havocThroughArg(args[wi], ct.Key)
		}
	}
	var rs []Val
	res := sig.Results()
	for i := 0; i < res.Len(); i++ {
		rs = append(rs, fr.freshOfType("r", res.At(i).Type()))
	}
	post := &specEnv{u: u, st: fr.st, old: pre, vars: env.vars, pkgPath: ct.PkgPath, results: rs, resultSig: sig, freshBase: allocPre}
	if len(ct.GhostMaps) > 0 {
		post.ghost = map[string]string{}
		for _, g := range ct.GhostMaps {
			sym := u.fresh("ghost_" + g)
			u.emit("(declare-fun %s (%s) %s)", sym, u.mode.idxSort(), u.mode.idxSort())
			post.ghost[g] = sym
			u.ghostSyms = append(u.ghostSyms, sym)
			if u.ghostBlock == nil {
				u.ghostBlock = map[string]*ssa.BasicBlock{}
			}
			u.ghostBlock[sym] = fr.blk
		}
	}
	for k, en := range ct.Ensures {
		if observerRe.MatchString(en.Src) {
			continue // an assertion about the callee's own calls: not visible to callers
		}
		if _, err := post.boolExpr(en.E); err != nil {
			u.note("postcondition %d of %s cannot be used at this call site and is not assumed: %v", k+1, ct.Key, err)
			continue
		}
		guard := fr.cur
		for _, cj := range splitConj(en.E) {
			t, err := post.boolExpr(cj)
			if err != nil {
				continue
			}
			if isQuantConj(cj) {
				// quantified facts are asserted on their own line (guarded by the path condition at
				// the call) so that the instance-only variant of an obligation can leave them out
				u.emit("(assert (=> " + guard + " " + t + "))")
				u.quantHypLines[len(u.lines)-1] = true
			} else {
				fr.assume(t)
			}
		}
		post.recordHyps(en.E, guard)
	}
	u.note("assumed contract used: %s", ct.Key)
	return resultVal(v, rs)
}

// dynamicCall: call through a func value that is not statically known
func (fr *frame) dynamicCall(v ssa.Value, c *ssa.CallCommon, fv Val) Val {
	var args []Val
	for _, a := range c.Args {
		args = append(args, fr.val(a))
	}
	return fr.dynamicCallVals(v, c, fv, args)
}

func (fr *frame) dynamicCallVals(v ssa.Value, c *ssa.CallCommon, fv Val, args []Val) Val {
	u := fr.u
	sig := c.Value.Type().Underlying().(*types.Signature)
	// a package-level function variable with a contract of its own (assumed for every function
	// the variable may hold): the call is a modular call against that contract
	if ld, ok := c.Value.(*ssa.UnOp); ok {
		if g, ok := ld.X.(*ssa.Global); ok && g.Pkg != nil {
			if ct, ok := u.eng.CS.Funcs[g.Pkg.Pkg.Path()+"::"+g.Name()]; ok {
				ct.used = true
				if fr.callLog == nil {
					fr.callLog = map[string][][]Val{}
				}
				if fr.resLog == nil {
					fr.resLog = map[string][]Val{}
				}
				fr.callLog[g.Name()] = append(fr.callLog[g.Name()], args)
				fr.notePos(g.Name(), v.(ssa.Instruction))
				res := fr.contractCallSigNames(v, ct, sig, args, v.(ssa.Instruction), g.Name(), nil)
				fr.resLog[g.Name()] = append(fr.resLog[g.Name()], res)
				return res
			}
		}
	}
	// callback clause of the enclosing top-level contract, by parameter name
	cbName := ""
	if p, ok := c.Value.(*ssa.Parameter); ok {
		cbName = p.Name()
	} else if fr.contract != nil {
		// a function value held in a local or captured variable: its source name
		for _, d := range fr.dbg {
			for _, b := range d {
				if b.v == c.Value {
					if _, ok := fr.contract.Callback[b.name]; ok {
						cbName = b.name
					}
				}
			}
		}
	}
	if cbName != "" && len(args) > 0 && args[0].typ != nil {
		// ghost: the set of first arguments this callback has been called with
		func() {
			defer func() {
				if r := recover(); r != nil {
					if _, ok := r.(unsupported); !ok {
						panic(r)
					}
				}
			}()
			ks := u.sortOf(args[0].typ)
			k := u.regKey("CalledWith."+cbName, "(Array "+ks+" Bool)")
			u.argKeyType[k] = args[0].typ
			fr.st.set(k, "(store "+fr.st.get(u, k)+" "+fr.term(args[0])+" true)")
		}()
	}
	if p := (cbParam{cbName}); cbName != "" && fr.contract != nil {
		for k, cl := range fr.contract.CallbackPre[p.Name()] {
			env := fr.specEnvAt(fr.blk, fr.st, nil)
			env.inclusive = true
			for i, a := range args {
				env.vars[fmt.Sprintf("arg%d", i)] = a
			}
			t, extra, err := env.goal(cl.E)
			if err != nil {
				u.bindingError(fmt.Sprintf("callback requires %d of %s: %v", k+1, p.Name(), err))
				continue
			}
			if o := fr.obligeO("callback.pre", fmt.Sprintf("before calling %s: %s", p.Name(), cl.Src), v.(ssa.Instruction).Pos(), t); o != nil {
				o.Extra = extra
			}
		}
		_, hasPre := fr.contract.CallbackPre[p.Name()]
		if cls, ok := fr.contract.Callback[p.Name()]; ok || hasPre {
			var rs []Val
			for i := 0; i < sig.Results().Len(); i++ {
				rs = append(rs, fr.freshOfType(p.Name()+"_r", sig.Results().At(i).Type()))
			}
			env := fr.specEnvAt(fr.blk, fr.st, nil)
			env.results = rs
			env.resultSig = sig
			for i, a := range args {
				env.vars[fmt.Sprintf("arg%d", i)] = a
			}
			for _, cl := range cls {
				t, err := env.boolExpr(cl.E)
				if err != nil {
					u.bindingError(fmt.Sprintf("callback clause of %s: %v", p.Name(), err))
					continue
				}
				fr.assume(t)
				env.recordHyps(cl.E, fr.cur)
			}
			u.note("%s: callback %s assumed to satisfy its callback clause and to leave the modelled heap unchanged", fr.fn.Name(), p.Name())
			return resultVal(v, rs)
		}
	}
	// function values declared opaque in the contract (e.g. a context cancel function)
	if fr.contract != nil {
		for _, d := range fr.dbg {
			for _, b := range d {
				if b.v == c.Value {
					for _, op := range fr.contract.Opaque {
						if op == b.name {
							u.note("%s: call of the function value %s treated as having no effect on modelled state (declared opaque)", fr.fn.Name(), op)
							var rs []Val
							for i := 0; i < sig.Results().Len(); i++ {
								rs = append(rs, fr.freshOfType("opq", sig.Results().At(i).Type()))
							}
							return resultVal(v, rs)
						}
					}
				}
			}
		}
	}
	fr.havocAll("call through unknown function value " + c.Value.Name())
	var rs []Val
	for i := 0; i < sig.Results().Len(); i++ {
		rs = append(rs, fr.freshOfType("dyn", sig.Results().At(i).Type()))
	}
	return resultVal(v, rs)
}

// ---------------------------------------------------------------- builtins & intrinsics

func (fr *frame) builtin(b *ssa.Builtin, c *ssa.CallCommon, pos ssa.Instruction) Val {
	u := fr.u
	m := u.mode
	switch b.Name() {
	case "len", "cap":
		a := fr.val(c.Args[0])
		switch tt := c.Args[0].Type().Underlying().(type) {
		case *types.Slice:
			if b.Name() == "len" {
				return Val{t: "(s_len " + fr.term(a) + ")", typ: types.Typ[types.Int]}
			}
			return Val{t: "(s_cap " + fr.term(a) + ")", typ: types.Typ[types.Int]}
		case *types.Basic:
			return Val{t: "(S_len " + fr.term(a) + ")", typ: types.Typ[types.Int]}
		case *types.Array:
			return Val{t: m.idxLit(tt.Len()), typ: types.Typ[types.Int]}
		case *types.Pointer:
			if at, ok := tt.Elem().Underlying().(*types.Array); ok {
				return Val{t: m.idxLit(at.Len()), typ: types.Typ[types.Int]}
			}
		case *types.Map:
			t := fmt.Sprintf("(select %s %s)", fr.st.get(u, u.keyMapLen()), fr.term(a))
			if m.BV {
				panic(unsupportedf("len(map) in bv mode"))
			}
			fr.assume("(>= " + t + " 0)")
			// an empty map has an empty domain (MapLen is the cardinality of the domain)
			ks := u.sortOf(tt.Key())
			dom := fmt.Sprintf("(select %s %s)", fr.st.get(u, u.keyMapDom(tt)), fr.term(a))
			fr.assume(fmt.Sprintf("(=> (= %s 0) (forall ((x!k %s)) (! (not (select %s x!k)) :pattern ((select %s x!k)))))", t, ks, dom, dom))
			return Val{t: t, typ: types.Typ[types.Int]}
		}
	case "append":
		return fr.appendOp(c, pos)
	case "copy":
		return fr.copyOp(c)
	case "min", "max":
		if ii, ok := basicIntInfo(c.Args[0].Type()); ok {
			cur := fr.term(fr.val(c.Args[0]))
			for _, a := range c.Args[1:] {
				o := fr.term(fr.val(a))
				op := "<="
				if b.Name() == "max" {
					op = ">="
				}
				cur = fmt.Sprintf("(ite %s %s %s)", m.cmp(op, cur, o, ii.signed), cur, o)
			}
			return Val{t: cur, typ: c.Args[0].Type()}
		}
	case "delete":
		mt := c.Args[0].Type().Underlying().(*types.Map)
		mm := fr.term(fr.val(c.Args[0]))
		k := fr.term(fr.val(c.Args[1]))
		kd, kl := u.keyMapDom(mt), u.keyMapLen()
		d, l := fr.st.get(u, kd), fr.st.get(u, kl)
		fr.st.setAt(kl, fmt.Sprintf("(store %s %s (ite (select (select %s %s) %s) (- (select %s %s) 1) (select %s %s)))", l, mm, d, mm, k, l, mm, l, mm), mm)
		fr.st.setAt(kd, fmt.Sprintf("(store %s %s (store (select %s %s) %s false))", d, mm, d, mm, k), mm)
		return Val{}
	case "print", "println":
		return Val{}
	case "clear":
		if mt, ok := c.Args[0].Type().Underlying().(*types.Map); ok {
			mm := fr.term(fr.val(c.Args[0]))
			kd, kl := u.keyMapDom(mt), u.keyMapLen()
			fr.st.setAt(kd, fmt.Sprintf("(store %s %s ((as const (Array %s Bool)) false))", fr.st.get(u, kd), mm, u.sortOf(mt.Key())), mm)
			fr.st.setAt(kl, fmt.Sprintf("(store %s %s 0)", fr.st.get(u, kl), mm), mm)
			return Val{}
		}
	case "Slice":
		// unsafe.Slice(ptr, n), opt-in (contract: safety +unsafe-abstract): the result is an arbitrary
		// slice of length and capacity n - which memory it views, and so its contents, are not
		// connected to the object ptr points into (reinterpreting memory is outside the memory
		// model). Only sound when the function does not write through the result.
		if fr.contract != nil && fr.contract.Safety["unsafe-abstract"] {
			if rv, ok := pos.(ssa.Value); ok {
				n := fr.term(fr.val(c.Args[1]))
				r := fr.freshOfType("unsafeslice", rv.Type())
				fr.assume(fmt.Sprintf("(and (= (s_len %s) %s) (= (s_cap %s) %s))", r.t, n, r.t, n))
				u.note("%s: unsafe.Slice is abstracted: an arbitrary slice of the given length (its contents are not connected to the memory it reinterprets)", fr.fn.Name())
				return r
			}
		}
	case "recover":
		return Val{t: "(mk-ifc 0 0)", typ: types.Universe.Lookup("any").Type()}
	case "close":
		return Val{}
	}
	if len(c.Args) == 0 {
		panic(unsupportedf("builtin %s", b.Name()))
	}
	panic(unsupportedf("builtin %s on %s", b.Name(), c.Args[0].Type()))
}

func (fr *frame) intrinsic(v ssa.Value, callee *ssa.Function, args []Val, pos ssa.Instruction) (Val, bool) {
	u := fr.u
	name := callee.String()
	switch name {
	case "math.Float64bits", "math.Float32bits":
		bits := 64
		if name == "math.Float32bits" {
			bits = 32
		}
		if !u.mode.BV || u.mode.FPOrder {
			panic(unsupportedf("%s outside bv+fp mode", name))
		}
		b := u.declConst(fr.tag("fbits"), fmt.Sprintf("(_ BitVec %d)", bits))
		u.assert(fmt.Sprintf("(= ((_ to_fp %s) %s) %s)", fpDims(bits), b, fr.term(args[0])))
		u.note("math.Float%dbits modelled as the IEEE-754 bit cast (trusted)", bits)
		return Val{t: b, typ: callee.Signature.Results().At(0).Type()}, true
	case "math.Float64frombits", "math.Float32frombits":
		bits := 64
		if name == "math.Float32frombits" {
			bits = 32
		}
		if !u.mode.BV || u.mode.FPOrder {
			panic(unsupportedf("%s outside bv+fp mode", name))
		}
		u.note("math.Float%dfrombits modelled as the IEEE-754 bit cast (trusted)", bits)
		return Val{t: fmt.Sprintf("((_ to_fp %s) %s)", fpDims(bits), fr.term(args[0])), typ: callee.Signature.Results().At(0).Type()}, true
	case "math.Abs":
		if u.mode.FPOrder {
			return Val{t: "(ite (>= " + fr.term(args[0]) + " 0.0) " + fr.term(args[0]) + " (- " + fr.term(args[0]) + "))", typ: types.Typ[types.Float64]}, true
		}
		return Val{t: "(fp.abs " + fr.term(args[0]) + ")", typ: types.Typ[types.Float64]}, true
	case "math.IsNaN":
		if u.mode.FPOrder {
			return Val{t: "false", typ: types.Typ[types.Bool]}, true
		}
		return Val{t: "(fp.isNaN " + fr.term(args[0]) + ")", typ: types.Typ[types.Bool]}, true
	}
	return Val{}, false
}

// snapshotBytes records the content of a []byte argument at call time (ghost: lastbytes(Name, i))
func (fr *frame) snapshotBytes(name string, i int, a Val, t string) {
	u := fr.u
	sl, ok := a.typ.Underlying().(*types.Slice)
	if !ok {
		return
	}
	if b, ok := sl.Elem().Underlying().(*types.Basic); !ok || b.Kind() != types.Uint8 {
		return
	}
	k := u.regKey(fmt.Sprintf("Arg.%s.%d.bytes", name, i), "Str")
	arr := fmt.Sprintf("(select %s (s_ref %s))", fr.st.get(u, u.keyM(sl.Elem())), t)
	fr.st.set(k, fmt.Sprintf("(mk-str %s (s_len %s))", u.shift(arr, "(s_off "+t+")"), t))
}

// iterateClosure models "the callee calls this closure any number of times": the closure's
// iterator invariant (clauses 'invariant E' of its contract) must hold before the iteration
// (obligation iter.init), what the closure may assign among its captured variables is
// havoc'd, and the invariant is assumed afterwards (the closure's own unit proves that each
// call preserves it).
func (fr *frame) iterateClosure(cl Val, pos ssa.Instruction) {
	u := fr.u
	ct := u.eng.ContractFor(cl.fn)
	mkEnv := func() *specEnv {
		env := &specEnv{u: u, fr: nil, st: fr.st, old: fr.st, vars: map[string]Val{}, pkgPath: ct.PkgPath, callee: cl.fn}
		if len(cl.binds) == len(cl.fn.FreeVars) && len(cl.binds) > 0 {
			env.freeCells = map[string]*Ptr{}
			for i, fv := range cl.fn.FreeVars {
				env.freeCells[fv.Name()] = fr.asPtr(cl.binds[i], fv.Type())
			}
		}
		return env
	}
	if ct != nil && len(ct.Invariants) > 0 {
		ct.used = true
		env := mkEnv()
		for k, iv := range ct.Invariants {
			t, extra, err := env.goal(iv.E)
			if err != nil {
				u.bindingError(fmt.Sprintf("iterator invariant %d of %s: %v", k+1, ct.Key, err))
				continue
			}
			if o := fr.obligeO("iter.init", fmt.Sprintf("iterator invariant of %s holds before the iteration: %s", ct.Key, iv.Src), pos.Pos(), t); o != nil {
				o.Extra = extra
				if len(ct.Props) > 0 {
					o.Props = unionProps(o.Props, ct.Props)
				}
			}
		}
	}
	before := fr.st.clone()
	fr.havocCaptures(cl)
	if ct != nil && ct.HasMod {
		env := mkEnv()
		for _, mk := range ct.Modifies {
			if _, isFree := env.freeCells[mk]; isFree {
				continue // the captured variable itself: havoc'd above
			}
			fr.havocKey(mk, env)
		}
	}
	if ct != nil && len(ct.Preserves) > 0 {
		env := mkEnv()
		env.old = before
		for _, pv := range ct.Preserves {
			if t, err := env.boolExpr(pv.E); err == nil {
				fr.assume(t)
			}
		}
	}
	if ct != nil && len(ct.Invariants) > 0 {
		env := mkEnv()
		for _, iv := range ct.Invariants {
			for _, cj := range splitConj(iv.E) {
				t, err := env.boolExpr(cj)
				if err != nil {
					continue
				}
				if isQuantConj(cj) {
					u.emit("(assert (=> " + fr.cur + " " + t + "))")
					u.quantHypLines[len(u.lines)-1] = true
				} else {
					fr.assume(t)
				}
			}
			env.recordHyps(iv.E, fr.cur)
		}
		u.note("iterator invariant of %s assumed after the iteration (each call is proved to preserve it in the callback's own unit)", ct.Key)
	}
}

type cbParam struct{ name string }

func (c cbParam) Name() string { return c.name }

func (fr *frame) notePos(name string, ins ssa.Instruction) {
	if fr.callPos == nil {
		fr.callPos = map[string][]token.Pos{}
	}
	var p token.Pos
	if ins != nil {
		p = ins.Pos()
	}
	fr.callPos[name] = append(fr.callPos[name], p)
}

// callOrder: indices of the recorded calls to name, in source order (position, then record order)
func (fr *frame) callOrder(name string, n int) []int {
	idx := make([]int, n)
	for i := range idx {
		idx[i] = i
	}
	ps := fr.callPos[name]
	if len(ps) != n {
		return idx
	}
	sort.SliceStable(idx, func(a, b int) bool { return ps[idx[a]] < ps[idx[b]] })
	return idx
}

// afterCall: assumptions declared with `after CALLEE assume E` about what a callee returned
// (result / result0.. name the results, arg0.. the arguments); they are listed as unchecked.
func (fr *frame) afterCall(name string, args []Val, res Val, sig *types.Signature) {
	if fr.contract == nil || !fr.top || len(fr.contract.After[name]) == 0 {
		return
	}
	env := fr.specEnvAt(fr.blk, fr.st, nil)
	env.inclusive = true
	for i, a := range args {
		env.vars[fmt.Sprintf("arg%d", i)] = a
	}
	if res.tup != nil {
		env.results = res.tup
	} else {
		env.results = []Val{res}
	}
	env.resultSig = sig
	for _, cl := range fr.contract.After[name] {
		t, err := env.boolExpr(cl.E)
		if err != nil {
			// the clause does not fit this call (another function of the same name): nothing is assumed
			fr.u.note("%s: 'after %s assume %s' does not apply to the call at %s (%v)", fr.fn.Name(), name, cl.Src, fr.u.eng.pos(fr.blk.Instrs[0].Pos()), err)
			continue
		}
		fr.assume(t)
		fr.u.note("%s: assumed about the result of %s: %s", fr.fn.Name(), name, cl.Src)
	}
}

// noteArgSet: ghost set of the values argument i of the calls to name has taken (calledwitharg)
func (fr *frame) noteArgSet(name string, i int, a Val, t string) {
	u := fr.u
	if !u.trackArgSets[fmt.Sprintf("%s.%d", name, i)] {
		return
	}
	k := u.regKey(fmt.Sprintf("CalledWith.%s.%d", name, i), "(Array "+u.sortOf(a.typ)+" Bool)")
	u.argKeyType[k] = a.typ
	fr.st.set(k, "(store "+fr.st.get(u, k)+" "+t+" true)")
}

// havocThroughArg: the callee stores into the variable its argument points to (decoders): the
// variable gets an arbitrary well-typed value whose references exist after the call.
func (fr *frame) havocThroughArg(a Val, who string) {
	u := fr.u
	pv := a
	if a.dynV != nil {
		pv = *a.dynV
	}
	pt, ok := pv.typ.Underlying().(*types.Pointer)
	if !ok || (pv.ptr == nil && pv.t == "") {
		fr.havocAll("call to " + who + " stores through an argument that is not a known pointer")
		return
	}
	defer func() {
		if r := recover(); r != nil {
			if _, ok := r.(unsupported); !ok {
				panic(r)
			}
			fr.havocAll("call to " + who + " stores through an argument of a type outside the subset")
		}
	}()
	p := fr.asPtr(pv, pv.typ)
	c := fr.freshOfType("decoded", pt.Elem())
	for _, rt := range u.refTermsOf(c.t, pt.Elem(), 0) {
		u.assert("(>= " + rt + " 0)")
		u.assert("(<= " + rt + " " + fr.st.get(u, allocKey) + ")")
	}
	u.storePtr(p, fr.st, c.t)
	u.note("%s: the variable argument of %s points to receives an arbitrary value (decoded data is not modelled)", fr.fn.Name(), who)
}

// unionProps: a call-site obligation belongs to the caller's properties (the callee's
// postcondition is assumed there) and to the callee's (its contract is only as good as its callers)
func unionProps(a, b []string) []string {
	out := append([]string{}, a...)
	for _, x := range b {
		have := false
		for _, y := range out {
			if x == y {
				have = true
			}
		}
		if !have {
			out = append(out, x)
		}
	}
	return out
}

// shortCalleeName: "(*T).M" -> "M", "pkg.F" / "F" -> "F"
func shortCalleeName(key string) string {
	if i := strings.LastIndex(key, "."); i >= 0 {
		return key[i+1:]
	}
	return key
}
