package vc

// Spec expression language: lexer, Pratt parser, AST.
//
// Grammar (Go-like expression syntax plus):
//   a ==> b, a <==> b          implication / equivalence (lowest precedence, ==> right assoc)
//   forall(i, lo, hi, body)    bounded quantifier over lo <= i < hi (index-typed)
//   exists(i, lo, hi, body)
//   forallv(x T, body)         unbounded quantifier over a typed variable (lemmas only)
//   old(e)                     value of e in the entry state
//   final(x)                   value of source variable x at the return point
//   ite(c, a, b)
//   result, result0.., err     results of the function

import (
	"fmt"
	"strconv"
	"strings"
)

type tokKind int

const (
	tkEOF tokKind = iota
	tkIdent
	tkInt
	tkFloat
	tkString
	tkChar
	tkOp
)

type stoken struct {
	k   tokKind
	s   string
	pos int
}

type lexer struct {
	src  string
	pos  int
	toks []stoken
}

var ops3 = []string{"<==>", "==>", "&&", "||", "==", "!=", "<=", ">=", "<<", ">>", "&^"}

func lex(src string) ([]stoken, error) {
	var toks []stoken
	i := 0
	for i < len(src) {
		c := src[i]
		switch {
		case c == ' ' || c == '\t' || c == '\n' || c == '\r':
			i++
		case isIdentStart(c):
			j := i + 1
			for j < len(src) && (isIdentStart(src[j]) || isDigit(src[j])) {
				j++
			}
			toks = append(toks, stoken{tkIdent, src[i:j], i})
			i = j
		case isDigit(c):
			j := i + 1
			isFloat := false
			if c == '0' && j < len(src) && (src[j] == 'x' || src[j] == 'X') {
				j++
				for j < len(src) && (isHex(src[j]) || src[j] == '_') {
					j++
				}
			} else {
				for j < len(src) && (isDigit(src[j]) || src[j] == '_' || src[j] == '.' || src[j] == 'e') {
					if src[j] == '.' || src[j] == 'e' {
						// do not swallow ".." or method-like
						if src[j] == '.' && j+1 < len(src) && !isDigit(src[j+1]) {
							break
						}
						isFloat = true
					}
					j++
				}
			}
			if isFloat {
				toks = append(toks, stoken{tkFloat, src[i:j], i})
			} else {
				toks = append(toks, stoken{tkInt, strings.ReplaceAll(src[i:j], "_", ""), i})
			}
			i = j
		case c == '"':
			j := i + 1
			for j < len(src) && src[j] != '"' {
				if src[j] == '\\' {
					j++
				}
				j++
			}
			if j >= len(src) {
				return nil, fmt.Errorf("unterminated string at %d", i)
			}
			s, err := strconv.Unquote(src[i : j+1])
			if err != nil {
				return nil, fmt.Errorf("bad string literal at %d: %v", i, err)
			}
			toks = append(toks, stoken{tkString, s, i})
			i = j + 1
		case c == '\'':
			j := i + 1
			for j < len(src) && src[j] != '\'' {
				if src[j] == '\\' {
					j++
				}
				j++
			}
			if j >= len(src) {
				return nil, fmt.Errorf("unterminated char at %d", i)
			}
			r, _, _, err := strconv.UnquoteChar(src[i+1:j], '\'')
			if err != nil {
				return nil, fmt.Errorf("bad char literal at %d: %v", i, err)
			}
			toks = append(toks, stoken{tkChar, strconv.Itoa(int(r)), i})
			i = j + 1
		default:
			matched := false
			for _, op := range ops3 {
				if strings.HasPrefix(src[i:], op) {
					toks = append(toks, stoken{tkOp, op, i})
					i += len(op)
					matched = true
					break
				}
			}
			if matched {
				continue
			}
			if strings.ContainsRune("+-*/%&|^<>!()[]{},.:=", rune(c)) {
				toks = append(toks, stoken{tkOp, string(c), i})
				i++
				continue
			}
			return nil, fmt.Errorf("unexpected character %q at %d", c, i)
		}
	}
	toks = append(toks, stoken{tkEOF, "", len(src)})
	return toks, nil
}

func isIdentStart(c byte) bool {
	return c == '_' || c == '#' || (c >= 'a' && c <= 'z') || (c >= 'A' && c <= 'Z')
}
func isDigit(c byte) bool { return c >= '0' && c <= '9' }
func isHex(c byte) bool {
	return isDigit(c) || (c >= 'a' && c <= 'f') || (c >= 'A' && c <= 'F')
}

// ---------------------------------------------------------------- AST

type Expr interface{ String() string }

type (
	EIdent  struct{ Name string }
	EInt    struct{ Val string } // decimal or 0x..
	EFloat  struct{ Val string }
	EString struct{ Val string }
	EBool   struct{ Val bool }
	ENil    struct{}
	EBinary struct {
		Op   string
		X, Y Expr
	}
	EUnary struct {
		Op string
		X  Expr
	}
	ECall struct {
		Fun  string
		Args []Expr
	}
	EIndex struct{ X, I Expr }
	ESlice struct{ X, Lo, Hi Expr }
	EField struct {
		X    Expr
		Name string
	}
	EQuant struct {
		Forall bool
		Sum    bool
		Var    string
		Lo, Hi Expr   // bounded form
		Type   string // unbounded typed form (Lo,Hi nil)
		Body   Expr
	}
)

func (e *EIdent) String() string  { return e.Name }
func (e *EInt) String() string    { return e.Val }
func (e *EFloat) String() string  { return e.Val }
func (e *EString) String() string { return strconv.Quote(e.Val) }
func (e *EBool) String() string   { return fmt.Sprint(e.Val) }
func (e *ENil) String() string    { return "nil" }
func (e *EBinary) String() string { return "(" + e.X.String() + " " + e.Op + " " + e.Y.String() + ")" }
func (e *EUnary) String() string  { return e.Op + e.X.String() }
func (e *ECall) String() string {
	var a []string
	for _, x := range e.Args {
		a = append(a, x.String())
	}
	return e.Fun + "(" + strings.Join(a, ", ") + ")"
}
func (e *EIndex) String() string { return e.X.String() + "[" + e.I.String() + "]" }
func (e *ESlice) String() string {
	lo, hi := "", ""
	if e.Lo != nil {
		lo = e.Lo.String()
	}
	if e.Hi != nil {
		hi = e.Hi.String()
	}
	return e.X.String() + "[" + lo + ":" + hi + "]"
}
func (e *EField) String() string { return e.X.String() + "." + e.Name }
func (e *EQuant) String() string {
	q := "exists"
	if e.Forall {
		q = "forall"
	}
	if e.Lo == nil {
		return q + "v(" + e.Var + " " + e.Type + ", " + e.Body.String() + ")"
	}
	return q + "(" + e.Var + ", " + e.Lo.String() + ", " + e.Hi.String() + ", " + e.Body.String() + ")"
}

// ---------------------------------------------------------------- parser

type parser struct {
	toks []stoken
	p    int
	src  string
}

func ParseSpec(src string) (e Expr, err error) {
	toks, err := lex(src)
	if err != nil {
		return nil, err
	}
	ps := &parser{toks: toks, src: src}
	defer func() {
		if r := recover(); r != nil {
			if pe, ok := r.(parseErr); ok {
				err = fmt.Errorf("spec parse error: %s in %q", string(pe), src)
				return
			}
			panic(r)
		}
	}()
	e = ps.expr(0)
	if ps.peek().k != tkEOF {
		ps.fail("unexpected %q", ps.peek().s)
	}
	return e, nil
}

type parseErr string

func (ps *parser) fail(f string, a ...any) {
	panic(parseErr(fmt.Sprintf(f, a...) + fmt.Sprintf(" at offset %d", ps.peek().pos)))
}
func (ps *parser) peek() stoken { return ps.toks[ps.p] }
func (ps *parser) next() stoken  { t := ps.toks[ps.p]; ps.p++; return t }
func (ps *parser) isOp(s string) bool {
	t := ps.peek()
	return t.k == tkOp && t.s == s
}
func (ps *parser) expect(s string) {
	if !ps.isOp(s) {
		ps.fail("expected %q, got %q", s, ps.peek().s)
	}
	ps.p++
}

// precedence: 1 <==>, 2 ==>, 3 ||, 4 &&, 5 comparisons, 6 + - | ^, 7 * / % << >> & &^
func prec(op string) int {
	switch op {
	case "<==>":
		return 1
	case "==>":
		return 2
	case "||":
		return 3
	case "&&":
		return 4
	case "==", "!=", "<", "<=", ">", ">=":
		return 5
	case "+", "-", "|", "^":
		return 6
	case "*", "/", "%", "<<", ">>", "&", "&^":
		return 7
	}
	return 0
}

func (ps *parser) expr(minPrec int) Expr {
	x := ps.unary()
	for {
		t := ps.peek()
		if t.k != tkOp {
			return x
		}
		p := prec(t.s)
		if p == 0 || p < minPrec {
			return x
		}
		ps.p++
		var y Expr
		if t.s == "==>" {
			y = ps.expr(p) // right assoc
		} else {
			y = ps.expr(p + 1)
		}
		x = &EBinary{Op: t.s, X: x, Y: y}
	}
}

func (ps *parser) unary() Expr {
	t := ps.peek()
	if t.k == tkOp && (t.s == "!" || t.s == "-" || t.s == "^" || t.s == "*" || t.s == "&") {
		ps.p++
		return &EUnary{Op: t.s, X: ps.unary()}
	}
	return ps.postfix(ps.primary())
}

func (ps *parser) postfix(x Expr) Expr {
	for {
		switch {
		case ps.isOp("["):
			ps.p++
			var lo, hi Expr
			if ps.isOp(":") {
				ps.p++
				if !ps.isOp("]") {
					hi = ps.expr(0)
				}
				ps.expect("]")
				x = &ESlice{X: x, Lo: nil, Hi: hi}
				continue
			}
			lo = ps.expr(0)
			if ps.isOp(":") {
				ps.p++
				if !ps.isOp("]") {
					hi = ps.expr(0)
				}
				ps.expect("]")
				x = &ESlice{X: x, Lo: lo, Hi: hi}
				continue
			}
			ps.expect("]")
			x = &EIndex{X: x, I: lo}
		case ps.isOp("."):
			ps.p++
			t := ps.next()
			if t.k != tkIdent {
				ps.fail("expected field name")
			}
			x = &EField{X: x, Name: t.s}
		default:
			return x
		}
	}
}

func (ps *parser) primary() Expr {
	t := ps.next()
	switch t.k {
	case tkInt, tkChar:
		return &EInt{Val: t.s}
	case tkFloat:
		return &EFloat{Val: t.s}
	case tkString:
		return &EString{Val: t.s}
	case tkIdent:
		switch t.s {
		case "true":
			return &EBool{true}
		case "false":
			return &EBool{false}
		case "nil":
			return &ENil{}
		}
		if ps.isOp("(") {
			ps.p++
			switch t.s {
			case "forall", "exists", "sum":
				v := ps.next()
				if v.k != tkIdent {
					ps.fail("expected bound variable")
				}
				ps.expect(",")
				lo := ps.expr(0)
				ps.expect(",")
				hi := ps.expr(0)
				ps.expect(",")
				body := ps.expr(0)
				ps.expect(")")
				return &EQuant{Forall: t.s == "forall", Sum: t.s == "sum", Var: v.s, Lo: lo, Hi: hi, Body: body}
			case "forallv", "existsv":
				v := ps.next()
				if v.k != tkIdent {
					ps.fail("expected bound variable")
				}
				// type: tokens up to the next top-level comma
				start := ps.peek().pos
				depth := 0
				for {
					tt := ps.peek()
					if tt.k == tkEOF {
						ps.fail("unterminated quantifier")
					}
					if tt.k == tkOp && (tt.s == "(" || tt.s == "[") {
						depth++
					}
					if tt.k == tkOp && (tt.s == ")" || tt.s == "]") {
						depth--
					}
					if tt.k == tkOp && tt.s == "," && depth == 0 {
						break
					}
					ps.p++
				}
				typ := strings.TrimSpace(ps.src[start:ps.peek().pos])
				ps.expect(",")
				body := ps.expr(0)
				ps.expect(")")
				return &EQuant{Forall: t.s == "forallv", Var: v.s, Type: typ, Body: body}
			}
			if t.s == "dyn" || t.s == "isdyn" {
				// dyn(x, T) / isdyn(x, T): the second argument is a type, read as raw text
				x := ps.expr(0)
				ps.expect(",")
				start := ps.peek().pos
				depth := 0
				for {
					tt := ps.peek()
					if tt.k == tkEOF {
						ps.fail("unterminated %s(...)", t.s)
					}
					if tt.k == tkOp && (tt.s == "(" || tt.s == "[") {
						depth++
					}
					if tt.k == tkOp && (tt.s == ")" || tt.s == "]") {
						if depth == 0 {
							break
						}
						depth--
					}
					ps.p++
				}
				typ := strings.TrimSpace(ps.src[start:ps.peek().pos])
				ps.expect(")")
				return &ECall{Fun: t.s, Args: []Expr{x, &EIdent{Name: typ}}}
			}
			var args []Expr
			for !ps.isOp(")") {
				args = append(args, ps.expr(0))
				if ps.isOp(",") {
					ps.p++
				} else {
					break
				}
			}
			ps.expect(")")
			return &ECall{Fun: t.s, Args: args}
		}
		return &EIdent{Name: t.s}
	case tkOp:
		if t.s == "(" {
			e := ps.expr(0)
			ps.expect(")")
			return e
		}
	}
	ps.p--
	ps.fail("unexpected token %q", t.s)
	return nil
}
