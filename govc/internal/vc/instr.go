package vc

import (
	"fmt"
	"strings"
	"go/token"
	"go/types"
	"math"
	"math/big"

	"golang.org/x/tools/go/ssa"
)

func bigInt(n int64) *big.Int { return big.NewInt(n) }

func ratLit(f float64) string {
	if math.IsInf(f, 0) || math.IsNaN(f) {
		panic(unsupportedf("non-finite float literal in order mode"))
	}
	r := new(big.Rat).SetFloat64(f)
	neg := r.Sign() < 0
	if neg {
		r.Neg(r)
	}
	s := "(/ " + r.Num().String() + ".0 " + r.Denom().String() + ".0)"
	if neg {
		s = "(- " + s + ")"
	}
	return s
}

// abstractValue replaces an untranslatable pure value by an unconstrained constant.
func (fr *frame) abstractValue(v ssa.Value, reason string) Val {
	u := fr.u
	u.note("%s: value %s abstracted (unconstrained): %s", fr.fn.Name(), v.Name(), reason)
	if tup, ok := v.Type().(*types.Tuple); ok {
		var vs []Val
		for i := 0; i < tup.Len(); i++ {
			vs = append(vs, fr.freshOfType(v.Name(), tup.At(i).Type()))
		}
		return Val{typ: v.Type(), tup: vs}
	}
	return fr.freshOfType(v.Name(), v.Type())
}

func (fr *frame) freshOfType(hint string, t types.Type) Val {
	u := fr.u
	n := u.declConst(fr.tag(hint), u.sortOf(t))
	if ti := u.typeInvariant(n, t, 0); ti != "" {
		u.assert(ti)
	}
	if isRefLike(t) {
		u.assert("(<= " + refOf(n, t) + " " + fr.st.get(u, u.regKey(allocKey, "Int")) + ")")
	}
	return Val{t: n, typ: t}
}

func isRefLike(t types.Type) bool {
	switch t.Underlying().(type) {
	case *types.Pointer, *types.Map, *types.Slice, *types.Chan:
		return true
	}
	return false
}

func refOf(term string, t types.Type) string {
	if _, ok := t.Underlying().(*types.Slice); ok {
		return "(s_ref " + term + ")"
	}
	return term
}

func (fr *frame) freshRef() string {
	u := fr.u
	k := u.regKey(allocKey, "Int")
	a := fr.st.get(u, k)
	r := u.define(fr.tag("ref"), "Int", "(+ "+a+" 1)")
	fr.st.set(k, r)
	u.freshRefs[r] = true
	return r
}

func (fr *frame) instr(ins ssa.Instruction) {
	defer func() {
		if r := recover(); r != nil {
			if us, ok := r.(unsupported); ok {
				if v, isVal := ins.(ssa.Value); isVal && pureInstr(ins) {
					fr.vals[v] = fr.abstractValue(v, us.msg)
					return
				}
				panic(unsupportedf("%s: %s [%s]", fr.pos(ins.Pos()), us.msg, ins))
			}
			panic(r)
		}
	}()
	u := fr.u
	switch x := ins.(type) {
	case *ssa.DebugRef:
	case *ssa.Alloc:
		fr.vals[x] = fr.alloc(x)
	case *ssa.BinOp:
		fr.vals[x] = fr.binop(x)
	case *ssa.UnOp:
		fr.vals[x] = fr.unop(x)
	case *ssa.Convert:
		fr.vals[x] = fr.convert(x)
	case *ssa.ChangeType:
		v := fr.val(x.X)
		v.typ = x.Type()
		fr.vals[x] = v
	case *ssa.ChangeInterface:
		v := fr.val(x.X)
		v.typ = x.Type()
		fr.vals[x] = v
	case *ssa.MakeInterface:
		fr.vals[x] = fr.makeInterface(x)
	case *ssa.TypeAssert:
		fr.vals[x] = fr.typeAssert(x)
	case *ssa.Extract:
		t := fr.val(x.Tuple)
		if t.tup == nil {
			panic(unsupportedf("extract from non-tuple"))
		}
		fr.vals[x] = t.tup[x.Index]
	case *ssa.Field:
		v := fr.val(x.X)
		u.sortOf(x.X.Type())
		fr.vals[x] = Val{t: "(" + u.fieldSel(x.X.Type(), x.Field) + " " + fr.term(v) + ")", typ: x.Type()}
	case *ssa.FieldAddr:
		base := fr.val(x.X)
		p := fr.asPtr(base, x.X.Type())
		st := x.X.Type().Underlying().(*types.Pointer).Elem()
		fr.nilCheck(base, p, x.Pos(), "field address of nil pointer")
		fr.vals[x] = Val{typ: x.Type(), ptr: p.extend(pathEl{field: x.Field, owner: st})}
	case *ssa.Index:
		fr.vals[x] = fr.index(x)
	case *ssa.IndexAddr:
		fr.vals[x] = fr.indexAddr(x)
	case *ssa.Lookup:
		fr.vals[x] = fr.lookup(x)
	case *ssa.MakeSlice:
		fr.vals[x] = fr.makeSlice(x)
	case *ssa.MakeMap:
		mt := x.Type().Underlying().(*types.Map)
		r := fr.freshRef()
		kd, kv := u.keyMapDom(mt), u.keyMapVal(mt)
		fr.st.setAt(kd, fmt.Sprintf("(store %s %s ((as const (Array %s Bool)) false))", fr.st.get(u, kd), r, u.sortOf(mt.Key())), r)
		_ = kv
		kl := u.keyMapLen()
		fr.st.setAt(kl, fmt.Sprintf("(store %s %s 0)", fr.st.get(u, kl), r), r)
		fr.vals[x] = Val{t: r, typ: x.Type()}
	case *ssa.MapUpdate:
		fr.mapUpdate(x)
	case *ssa.Slice:
		fr.vals[x] = fr.slice(x)
	case *ssa.Store:
		fr.store(x)
	case *ssa.Call:
		fr.vals[x] = fr.call(x, &x.Call)
	case *ssa.MakeClosure:
		var bs []Val
		for _, b := range x.Bindings {
			bs = append(bs, fr.val(b))
		}
		fr.vals[x] = Val{typ: x.Type(), fn: x.Fn.(*ssa.Function), binds: bs}
	case *ssa.If:
		c := fr.term(fr.val(x.Cond))
		b := fr.blk
		fr.edge[[2]int{b.Index, b.Succs[0].Index}] = u.define(fr.tag(fmt.Sprintf("e%d_%d", b.Index, b.Succs[0].Index)), "Bool", "(and "+fr.cur+" "+c+")")
		fr.edge[[2]int{b.Index, b.Succs[1].Index}] = u.define(fr.tag(fmt.Sprintf("e%d_%d", b.Index, b.Succs[1].Index)), "Bool", "(and "+fr.cur+" (not "+c+"))")
	case *ssa.Jump:
		b := fr.blk
		fr.edge[[2]int{b.Index, b.Succs[0].Index}] = fr.cur
	case *ssa.Return:
		var rs []Val
		for _, r := range x.Results {
			rs = append(rs, fr.val(r))
		}
		fr.rets = append(fr.rets, retPoint{cur: fr.cur, results: rs, st: fr.st, blk: fr.blk})
	case *ssa.Panic:
		fr.safetyCheck("panic", "explicit panic is unreachable", x.Pos(), "false")
	case *ssa.RunDefers:
		fr.runDefers(x)
	case *ssa.Defer:
		d := deferred{cond: fr.cur, call: x}
		for _, li := range fr.loops {
			if li.blocks[fr.blk] && fr.reachesBackEdge(fr.blk, li) {
				// the loop may iterate again after registering this defer: an unknown number of
				// instances would be pending at the return
				d.inLoop = true
			}
		}
		if !x.Call.IsInvoke() {
			if _, isB := x.Call.Value.(*ssa.Builtin); !isB {
				d.fnv = fr.val(x.Call.Value)
			}
		} else {
			d.fnv = fr.val(x.Call.Value)
		}
		for _, a := range x.Call.Args {
			d.args = append(d.args, fr.val(a))
		}
		fr.defers = append(fr.defers, d)
	case *ssa.Go:
		fr.goStmt(x)
	case *ssa.Send, *ssa.Select, *ssa.MakeChan:
		fr.chanOp(ins)
	case *ssa.Range:
		fr.vals[x] = fr.rangeInit(x)
	case *ssa.Next:
		fr.vals[x] = fr.rangeNext(x)
	case *ssa.SliceToArrayPointer, *ssa.MultiConvert:
		panic(unsupportedf("instruction %T", ins))
	default:
		panic(unsupportedf("instruction %T", ins))
	}
}

func pureInstr(ins ssa.Instruction) bool {
	switch ins.(type) {
	case *ssa.BinOp, *ssa.Convert, *ssa.Field, *ssa.Index, *ssa.Lookup, *ssa.TypeAssert, *ssa.MakeInterface, *ssa.ChangeInterface, *ssa.ChangeType, *ssa.Extract:
		return true
	case *ssa.UnOp:
		return true
	}
	return false
}

// ---------------------------------------------------------------- alloc / pointers

func allocEscapes(a *ssa.Alloc) bool {
	var visit func(v ssa.Value, depth int) bool
	visit = func(v ssa.Value, depth int) bool {
		refs := v.Referrers()
		if refs == nil {
			return true
		}
		for _, r := range *refs {
			switch x := r.(type) {
			case *ssa.DebugRef:
			case *ssa.UnOp:
				if x.Op != token.MUL {
					return true
				}
			case *ssa.Store:
				if x.Val == v {
					return true
				}
			case *ssa.FieldAddr:
				if visit(x, depth+1) {
					return true
				}
			case *ssa.IndexAddr:
				if visit(x, depth+1) {
					return true
				}
			default:
				return true
			}
		}
		return false
	}
	return visit(a, 0)
}

func (fr *frame) alloc(a *ssa.Alloc) Val {
	u := fr.u
	t := a.Type().(*types.Pointer).Elem()
	if at, ok := t.Underlying().(*types.Array); ok {
		r := fr.freshRef()
		k := u.keyM(at.Elem())
		fr.st.setAt(k, fmt.Sprintf("(store %s %s %s)", fr.st.get(u, k), r, u.zero(t)), r)
		return Val{t: r, typ: a.Type(), ptr: &Ptr{kind: pArray, ref: r, typ: at.Elem(), n: at.Len()}}
	}
	if !allocEscapes(a) {
		key := u.regKey(fmt.Sprintf("cell.f%d.%s", fr.id, a.Name()), u.sortOf(t))
		fr.st.set(key, u.zero(t))
		return Val{typ: a.Type(), ptr: &Ptr{kind: pLocal, cell: key, typ: t}}
	}
	r := fr.freshRef()
	p := u.ptrFromRef(r, t)
	u.storePtr(p, fr.st, u.zero(t))
	return Val{t: r, typ: a.Type(), ptr: p}
}

// asPtr views a value of pointer type as a translator-level pointer.
func (fr *frame) asPtr(v Val, t types.Type) *Ptr {
	if v.ptr != nil {
		return v.ptr
	}
	pt, ok := t.Underlying().(*types.Pointer)
	if !ok {
		panic(unsupportedf("not a pointer type: %s", t))
	}
	return fr.u.ptrFromRef(fr.term(v), pt.Elem())
}

func (fr *frame) nilCheck(v Val, p *Ptr, pos token.Pos, what string) {
	if v.ptr != nil && (p.kind == pLocal || p.kind == pGlobal) {
		return
	}
	if v.t == "" {
		return
	}
	if !fr.u.safety["nil"] {
		return
	}
	fr.safetyCheck("nil", what, pos, "(not (= "+v.t+" 0))")
}

func (fr *frame) store(x *ssa.Store) {
	u := fr.u
	av := fr.val(x.Addr)
	p := fr.asPtr(av, x.Addr.Type())
	fr.nilCheck(av, p, x.Pos(), "store through nil pointer")
	fr.guardedCheck(p, true, x.Pos())
	v := fr.val(x.Val)
	u.storePtr(p, fr.st, fr.term(v))
	// remember statically known facts about stored closures / interfaces in local cells
	if p.kind == pLocal && len(p.path) == 0 && (v.fn != nil || v.dyn != nil || v.ptr != nil) {
		if fr.u.cellStatic == nil {
			fr.u.cellStatic = map[string]Val{}
		}
		fr.u.cellStatic[p.cell+"@"+fr.st.get(u, p.cell)] = v
	}
}

func (fr *frame) unop(x *ssa.UnOp) Val {
	u := fr.u
	switch x.Op {
	case token.MUL:
		av := fr.val(x.X)
		p := fr.asPtr(av, x.X.Type())
		fr.nilCheck(av, p, x.Pos(), "load through nil pointer")
		fr.guardedCheck(p, false, x.Pos())
		t := u.loadPtr(p, fr.st)
		res := Val{t: t, typ: x.Type()}
		if p.kind == pLocal && len(p.path) == 0 && u.cellStatic != nil {
			if sv, ok := u.cellStatic[p.cell+"@"+fr.st.get(u, p.cell)]; ok {
				sv.typ = x.Type()
				return sv
			}
		}
		if isRefLike(x.Type()) {
			fr.assume("(<= " + refOf(t, x.Type()) + " " + fr.st.get(u, u.regKey(allocKey, "Int")) + ")")
		}
		if ti := u.typeInvariant(t, x.Type(), 1); ti != "" && p.kind != pLocal {
			fr.assume(ti)
		}
		return res
	case token.NOT:
		return Val{t: "(not " + fr.term(fr.val(x.X)) + ")", typ: x.Type()}
	case token.SUB:
		v := fr.term(fr.val(x.X))
		if ii, ok := basicIntInfo(x.Type()); ok {
			if u.mode.BV {
				return Val{t: "(bvneg " + v + ")", typ: x.Type()}
			}
			t := "(- " + v + ")"
			fr.overflowCheck(t, ii, x.Pos(), "negation")
			return Val{t: t, typ: x.Type()}
		}
		if _, ok := isFloat(x.Type()); ok {
			if u.mode.FPOrder {
				return Val{t: "(- " + v + ")", typ: x.Type()}
			}
			return Val{t: "(fp.neg " + v + ")", typ: x.Type()}
		}
	case token.XOR:
		if _, ok := basicIntInfo(x.Type()); ok && u.mode.BV {
			return Val{t: "(bvnot " + fr.term(fr.val(x.X)) + ")", typ: x.Type()}
		}
	case token.ARROW:
		fr.u.note("%s: channel receive yields an unconstrained value", fr.fn.Name())
		fr.chanBlock("channel receive", x.Pos())
		if x.CommaOk {
			tup := x.Type().(*types.Tuple)
			return Val{typ: x.Type(), tup: []Val{fr.freshOfType("recv", tup.At(0).Type()), fr.freshOfType("recvok", tup.At(1).Type())}}
		}
		return fr.freshOfType("recv", x.Type())
	}
	panic(unsupportedf("unary operator %s on %s", x.Op, x.X.Type()))
}

func (fr *frame) overflowCheck(t string, ii intInfo, pos token.Pos, what string) {
	if fr.u.mode.BV {
		return
	}
	fr.safetyCheck("overflow", what+" stays within the machine integer range", pos, fr.u.mode.inRange(t, ii))
}

// ---------------------------------------------------------------- binop

func (fr *frame) binop(x *ssa.BinOp) Val {
	u := fr.u
	a, b := fr.val(x.X), fr.val(x.Y)
	xt := x.X.Type()
	op := x.Op.String()
	isCmp := false
	switch x.Op {
	case token.EQL, token.NEQ, token.LSS, token.LEQ, token.GTR, token.GEQ:
		isCmp = true
	}
	if ii, ok := basicIntInfo(xt); ok {
		at, bt := fr.term(a), fr.term(b)
		if isCmp {
			return Val{t: u.mode.cmp(op, at, bt, ii.signed), typ: x.Type()}
		}
		if x.Op == token.SHL || x.Op == token.SHR {
			yi, _ := basicIntInfo(x.Y.Type())
			if !u.mode.BV {
				// shifts by constants are multiplications / divisions in int mode
				if c, ok := x.Y.(*ssa.Const); ok {
					if n, ok := constToBig(c.Value); ok && n.IsInt64() && n.Int64() >= 0 && n.Int64() < 63 {
						pw := new(big.Int).Lsh(big.NewInt(1), uint(n.Int64())).String()
						if x.Op == token.SHL {
							t := "(* " + at + " " + pw + ")"
							fr.overflowCheck(t, ii, x.Pos(), "shift")
							return Val{t: t, typ: x.Type()}
						}
						if !ii.signed {
							return Val{t: "(div " + at + " " + pw + ")", typ: x.Type()}
						}
						return Val{t: "(div " + at + " " + pw + ")", typ: x.Type()} // floor = arithmetic shift
					}
				}
				panic(unsupportedf("variable shift in int mode"))
			}
			// bring the shift count to the width of x
			cnt := bt
			if yi.bits < ii.bits {
				cnt = fmt.Sprintf("((_ zero_extend %d) %s)", ii.bits-yi.bits, bt)
			} else if yi.bits > ii.bits {
				lim := u.mode.intLit(bigInt(int64(ii.bits)), yi)
				tr := fmt.Sprintf("((_ extract %d 0) %s)", ii.bits-1, bt)
				// count >= width gives 0 (or sign fill) as in Go; bvshl/bvlshr do that when the count is kept large
				cnt = fmt.Sprintf("(ite (bvuge %s %s) %s %s)", bt, lim, u.mode.intLit(bigInt(int64(ii.bits)), ii), tr)
			}
			if yi.signed {
				fr.safetyCheck("shift", "shift count is non-negative", x.Pos(), u.mode.cmp(">=", bt, u.mode.intLit(bigZero, yi), true))
			}
			t, _, err := u.mode.arith(op, at, cnt, ii)
			if err != nil {
				panic(unsupportedf("%v", err))
			}
			return Val{t: t, typ: x.Type()}
		}
		if x.Op == token.QUO || x.Op == token.REM {
			fr.safetyCheck("div", "divisor is non-zero", x.Pos(), "(not (= "+bt+" "+u.mode.intLit(bigZero, ii)+"))")
		}
		t, mayOv, err := u.mode.arith(op, at, bt, ii)
		if err != nil {
			panic(unsupportedf("%v", err))
		}
		if mayOv {
			t = u.define(fr.tag(x.Name()), u.mode.intSort(ii), t)
			fr.overflowCheck(t, ii, x.Pos(), "result of "+op)
		}
		return Val{t: t, typ: x.Type()}
	}
	if fb, ok := isFloat(xt); ok {
		at, bt := fr.term(a), fr.term(b)
		return Val{t: u.floatOp(op, at, bt, fb, isCmp), typ: x.Type()}
	}
	if isBool(xt) {
		at, bt := fr.term(a), fr.term(b)
		switch x.Op {
		case token.EQL:
			return Val{t: "(= " + at + " " + bt + ")", typ: x.Type()}
		case token.NEQ:
			return Val{t: "(not (= " + at + " " + bt + "))", typ: x.Type()}
		case token.AND:
			return Val{t: "(and " + at + " " + bt + ")", typ: x.Type()}
		case token.OR:
			return Val{t: "(or " + at + " " + bt + ")", typ: x.Type()}
		}
	}
	if isString(xt) {
		at, bt := fr.term(a), fr.term(b)
		switch x.Op {
		case token.ADD:
			return Val{t: u.strConcat(at, bt), typ: x.Type()}
		case token.EQL:
			return Val{t: u.strEq(at, bt), typ: x.Type()}
		case token.NEQ:
			return Val{t: "(not " + u.strEq(at, bt) + ")", typ: x.Type()}
		}
		panic(unsupportedf("string operator %s", op))
	}
	// reference-like and interface comparisons
	if x.Op == token.EQL || x.Op == token.NEQ {
		var eq string
		switch xt.Underlying().(type) {
		case *types.Interface:
			if isNilConst(x.Y) {
				if a.dyn != nil {
					eq = "false"
				} else {
					eq = "(= (i_tag " + fr.term(a) + ") 0)"
				}
			} else if isNilConst(x.X) {
				if b.dyn != nil {
					eq = "false"
				} else {
					eq = "(= (i_tag " + fr.term(b) + ") 0)"
				}
			} else {
				eq = "(= " + fr.term(a) + " " + fr.term(b) + ")"
			}
		case *types.Slice:
			if isNilConst(x.Y) {
				eq = "(= (s_ref " + fr.term(a) + ") 0)"
			} else {
				eq = "(= (s_ref " + fr.term(b) + ") 0)"
			}
		case *types.Pointer, *types.Map, *types.Chan, *types.Signature:
			if a.fn != nil && isNilConst(x.Y) {
				eq = "false"
			} else if a.ptr != nil && (a.ptr.kind == pLocal || a.ptr.kind == pGlobal) && isNilConst(x.Y) {
				eq = "false"
			} else {
				eq = "(= " + fr.term(a) + " " + fr.term(b) + ")"
			}
		default:
			eq = "(= " + fr.term(a) + " " + fr.term(b) + ")"
		}
		if x.Op == token.NEQ {
			eq = "(not " + eq + ")"
		}
		return Val{t: eq, typ: x.Type()}
	}
	panic(unsupportedf("binary operator %s on %s", op, xt))
}

func isNilConst(v ssa.Value) bool {
	c, ok := v.(*ssa.Const)
	return ok && c.Value == nil
}

func (u *Unit) idxAdd(a, b string) string {
	if u.mode.BV {
		return "(bvadd " + a + " " + b + ")"
	}
	return "(+ " + a + " " + b + ")"
}
// elemIdx: absolute index of element i of a slice with offset off. In int mode an
// uninterpreted wrapper keeps the term syntactically stable for quantifier triggers.
func (u *Unit) elemIdx(off, i string) string {
	if u.mode.BV {
		return "(bvadd " + off + " " + i + ")"
	}
	if !u.declared["fn:sidx"] {
		u.declared["fn:sidx"] = true
		u.emit("(declare-fun sidx (Int Int) Int)")
		u.emit("(assert (forall ((o Int) (i Int)) (! (= (sidx o i) (+ o i)) :pattern ((sidx o i)))))")
	}
	return "(sidx " + off + " " + i + ")"
}
func (u *Unit) idxSub(a, b string) string {
	if u.mode.BV {
		return "(bvsub " + a + " " + b + ")"
	}
	return "(- " + a + " " + b + ")"
}

func (u *Unit) floatOp(op, a, b string, bits int, isCmp bool) string {
	if u.mode.FPOrder {
		switch op {
		case "==":
			return "(= " + a + " " + b + ")"
		case "!=":
			return "(not (= " + a + " " + b + "))"
		case "<", "<=", ">", ">=":
			return "(" + op + " " + a + " " + b + ")"
		}
		f := map[string]string{"+": "fadd", "-": "fsub", "*": "fmul", "/": "fdiv"}[op]
		if f == "" {
			panic(unsupportedf("float operator %s", op))
		}
		name := fmt.Sprintf("%s%d", f, bits)
		if !u.declared["fn:"+name] {
			u.declared["fn:"+name] = true
			u.emit("(declare-fun %s (Real Real) Real)", name)
			if f == "fmul" {
				// IEEE: x*1 = 1*x = x exactly
				u.emit("(assert (forall ((x Real)) (! (= (%s x 1.0) x) :pattern ((%s x 1.0)))))", name, name)
				u.emit("(assert (forall ((x Real)) (! (= (%s 1.0 x) x) :pattern ((%s 1.0 x)))))", name, name)
			}
		}
		return "(" + name + " " + a + " " + b + ")"
	}
	switch op {
	case "==":
		return "(fp.eq " + a + " " + b + ")"
	case "!=":
		return "(not (fp.eq " + a + " " + b + "))"
	case "<":
		return "(fp.lt " + a + " " + b + ")"
	case "<=":
		return "(fp.leq " + a + " " + b + ")"
	case ">":
		return "(fp.gt " + a + " " + b + ")"
	case ">=":
		return "(fp.geq " + a + " " + b + ")"
	case "+":
		return "(fp.add RNE " + a + " " + b + ")"
	case "-":
		return "(fp.sub RNE " + a + " " + b + ")"
	case "*":
		return "(fp.mul RNE " + a + " " + b + ")"
	case "/":
		return "(fp.div RNE " + a + " " + b + ")"
	}
	panic(unsupportedf("float operator %s", op))
}

// ---------------------------------------------------------------- conversions

func (fr *frame) convert(x *ssa.Convert) Val {
	u := fr.u
	v := fr.val(x.X)
	from, to := x.X.Type(), x.Type()
	fi, fok := basicIntInfo(from)
	ti, tok := basicIntInfo(to)
	ff, ffok := isFloat(from)
	tf, tfok := isFloat(to)
	switch {
	case fok && tok:
		t, need := u.mode.convertInt(fr.term(v), fi, ti)
		if need {
			fr.overflowCheck(t, ti, x.Pos(), "integer conversion")
		}
		return Val{t: t, typ: to}
	case ffok && tfok:
		if ff == tf {
			return Val{t: fr.term(v), typ: to}
		}
		if u.mode.FPOrder {
			name := fmt.Sprintf("fcvt%d_%d", ff, tf)
			if !u.declared["fn:"+name] {
				u.declared["fn:"+name] = true
				u.emit("(declare-fun %s (Real) Real)", name)
				if tf > ff {
					// widening is exact
					u.emit("(assert (forall ((x Real)) (! (= (%s x) x) :pattern ((%s x)))))", name, name)
				}
			}
			return Val{t: "(" + name + " " + fr.term(v) + ")", typ: to}
		}
		return Val{t: fmt.Sprintf("((_ to_fp %s) RNE %s)", fpDims(tf), fr.term(v)), typ: to}
	case fok && tfok:
		if u.mode.FPOrder {
			name := fmt.Sprintf("i2f%d", tf)
			if !u.declared["fn:"+name] {
				u.declared["fn:"+name] = true
				u.emit("(declare-fun %s (%s) Real)", name, u.mode.intSort(fi))
			}
			return Val{t: "(" + name + " " + fr.term(v) + ")", typ: to}
		}
		if u.mode.BV {
			if fi.signed {
				return Val{t: fmt.Sprintf("((_ to_fp %s) RNE %s)", fpDims(tf), fr.term(v)), typ: to}
			}
			return Val{t: fmt.Sprintf("((_ to_fp_unsigned %s) RNE %s)", fpDims(tf), fr.term(v)), typ: to}
		}
		return Val{t: fmt.Sprintf("((_ to_fp %s) RNE (to_real %s))", fpDims(tf), fr.term(v)), typ: to}
	case ffok && tok:
		panic(unsupportedf("float to integer conversion"))
	}
	if isString(from) {
		if sl, ok := to.Underlying().(*types.Slice); ok {
			if b, ok := sl.Elem().Underlying().(*types.Basic); ok && b.Kind() == types.Uint8 {
				r := fr.freshRef()
				k := u.keyM(sl.Elem())
				s := fr.term(v)
				fr.st.setAt(k, fmt.Sprintf("(store %s %s (S_arr %s))", fr.st.get(u, k), r, s), r)
				return Val{t: fmt.Sprintf("(mk-slc %s %s (S_len %s) (S_len %s))", r, u.mode.idxLit(0), s, s), typ: to}
			}
		}
	}
	if isString(to) {
		if sl, ok := from.Underlying().(*types.Slice); ok {
			if b, ok := sl.Elem().Underlying().(*types.Basic); ok && b.Kind() == types.Uint8 {
				s := fr.term(v)
				k := u.keyM(sl.Elem())
				arr := fmt.Sprintf("(select %s (s_ref %s))", fr.st.get(u, k), s)
				return Val{t: fmt.Sprintf("(mk-str %s (s_len %s))", u.shift(arr, "(s_off "+s+")"), s), typ: to}
			}
		}
	}
	if types.Identical(from.Underlying(), to.Underlying()) {
		v.typ = to
		return v
	}
	if _, ok := to.Underlying().(*types.Pointer); ok {
		panic(unsupportedf("unsafe pointer conversion"))
	}
	panic(unsupportedf("conversion %s -> %s", from, to))
}

func fpDims(bits int) string {
	if bits == 32 {
		return "8 24"
	}
	return "11 53"
}

// shift(a, off)[k] = a[off+k]; shift(a,0) = a   (byte arrays; see shiftOf for other sorts)
func (u *Unit) shift(arr, off string) string {
	return u.shiftOf(u.byteSort(), arr, off)
}

func sortTag(es string) string {
	r := strings.NewReplacer("(", "", ")", "", " ", "_", "|", "")
	return r.Replace(es)
}

func (u *Unit) shiftOf(es, arr, off string) string {
	if off == u.mode.idxLit(0) {
		return arr
	}
	fn := q("shift_" + sortTag(es))
	if !u.declared["fn:"+fn] {
		u.declared["fn:"+fn] = true
		I := u.mode.idxSort()
		u.emit("(declare-fun %s ((Array %s %s) %s) (Array %s %s))", fn, I, es, I, I, es)
		u.emit("(assert (forall ((a (Array %s %s))) (! (= (%s a %s) a) :pattern ((%s a %s)))))", I, es, fn, u.mode.idxLit(0), fn, u.mode.idxLit(0))
		u.emit("(assert (forall ((a (Array %s %s)) (o %s) (k %s)) (! (= (select (%s a o) k) (select a %s)) :pattern ((select (%s a o) k)))))", I, es, I, I, fn, u.idxAdd("o", "k"), fn)
	}
	return "(" + fn + " " + arr + " " + off + ")"
}

// blit(d, do, s, so, n)[x] = s[so + x - do] if do <= x < do+n else d[x]
func (u *Unit) blitOf(es, d, do, s, so, n string) string {
	fn := q("blit_" + sortTag(es))
	if !u.declared["fn:"+fn] {
		u.declared["fn:"+fn] = true
		m := u.mode
		I := m.idxSort()
		A := fmt.Sprintf("(Array %s %s)", I, es)
		u.emit("(declare-fun %s (%s %s %s %s %s) %s)", fn, A, I, A, I, I, A)
		u.emit("(assert (forall ((d %s) (do %s) (s %s) (so %s) (n %s) (x %s)) (! (= (select (%s d do s so n) x) (ite (and %s %s) (select s %s) (select d x))) :pattern ((select (%s d do s so n) x)))))",
			A, I, A, I, I, I, fn, m.cmp("<=", "do", "x", true), m.cmp("<", "x", u.idxAdd("do", "n"), true), u.idxAdd("so", u.idxSub("x", "do")), fn)
	}
	return fmt.Sprintf("(%s %s %s %s %s %s)", fn, d, do, s, so, n)
}

// ---------------------------------------------------------------- interfaces

func (fr *frame) makeInterface(x *ssa.MakeInterface) Val {
	u := fr.u
	v := fr.val(x.X)
	ct := x.X.Type()
	res := Val{typ: x.Type(), dyn: ct}
	vv := v
	res.dynV = &vv
	// SMT form, when the payload has a term
	func() {
		defer func() {
			if r := recover(); r != nil {
				if _, ok := r.(unsupported); !ok {
					panic(r)
				}
			}
		}()
		t := fr.term(v)
		srt := u.sortOf(ct)
		bx, ubx := u.boxFns(ct, srt)
		res.t = fmt.Sprintf("(mk-ifc %d (%s %s))", u.eng.typeID(ct), bx, t)
		fr.assume(fmt.Sprintf("(= (%s (%s %s)) %s)", ubx, bx, t, t))
	}()
	return res
}

func (u *Unit) boxFns(t types.Type, srt string) (string, string) {
	name := sanitize(shortTypeName(t))
	bx, ubx := q("box_"+name), q("unbox_"+name)
	if !u.declared["box:"+name] {
		u.declared["box:"+name] = true
		u.emit("(declare-fun %s (%s) Int)", bx, srt)
		u.emit("(declare-fun %s (Int) %s)", ubx, srt)
	}
	return bx, ubx
}

func (fr *frame) typeAssert(x *ssa.TypeAssert) Val {
	u := fr.u
	v := fr.val(x.X)
	at := x.AssertedType
	_, toIface := at.Underlying().(*types.Interface)
	mk := func(val Val, ok string) Val {
		if x.CommaOk {
			return Val{typ: x.Type(), tup: []Val{val, {t: ok, typ: types.Typ[types.Bool]}}}
		}
		fr.safetyCheck("typeassert", "type assertion to "+shortTypeName(at)+" succeeds", x.Pos(), ok)
		return val
	}
	if v.dyn != nil {
		if toIface {
			if types.Implements(v.dyn, at.Underlying().(*types.Interface)) {
				r := v
				r.typ = at
				return mk(r, "true")
			}
			return mk(Val{t: u.zero(at), typ: at}, "false")
		}
		if types.Identical(v.dyn, at) {
			r := *v.dynV
			r.typ = at
			return mk(r, "true")
		}
		return mk(Val{t: u.zero(at), typ: at}, "false")
	}
	it := fr.term(v)
	if toIface {
		ok := u.declConst(fr.tag("taok"), "Bool")
		u.note("%s: interface-to-interface assertion outcome unconstrained", fr.fn.Name())
		return mk(Val{t: it, typ: at}, "(and "+ok+" (not (= (i_tag "+it+") 0)))")
	}
	srt := u.sortOf(at)
	_, ubx := u.boxFns(at, srt)
	ok := fmt.Sprintf("(= (i_tag %s) %d)", it, u.eng.typeID(at))
	val := Val{t: fmt.Sprintf("(ite %s (%s (i_pay %s)) %s)", ok, ubx, it, u.zero(at)), typ: at}
	// the value held by an interface is a well-typed value of its dynamic type
	if ti := u.typeInvariant(fmt.Sprintf("(%s (i_pay %s))", ubx, it), at, 0); ti != "" {
		fr.assume("(=> " + ok + " " + ti + ")")
	}
	return mk(val, ok)
}

// strConcat: a ++ b, axiomatised pointwise (length, left part, right part)
func (u *Unit) strConcat(a, b string) string {
	if !u.declared["ax:concat"] {
		u.declared["ax:concat"] = true
		m := u.mode
		I := m.idxSort()
		pat := ":pattern ((select (S_arr (str_concat a b)) k))"
		u.emit("(assert (forall ((a Str) (b Str)) (! (= (S_len (str_concat a b)) %s) :pattern ((str_concat a b)))))", u.idxAdd("(S_len a)", "(S_len b)"))
		u.emit("(assert (forall ((a Str) (b Str) (k %s)) (! (=> (and %s %s) (= (select (S_arr (str_concat a b)) k) (select (S_arr a) k))) %s)))", I, m.cmp("<=", m.idxLit(0), "k", true), m.cmp("<", "k", "(S_len a)", true), pat)
		u.emit("(assert (forall ((a Str) (b Str) (k %s)) (! (=> (and %s %s) (= (select (S_arr (str_concat a b)) k) (select (S_arr b) %s))) %s)))", I, m.cmp("<=", "(S_len a)", "k", true), m.cmp("<", "k", u.idxAdd("(S_len a)", "(S_len b)"), true), u.idxSub("k", "(S_len a)"), pat)
	}
	return "(str_concat " + a + " " + b + ")"
}

// reachesBackEdge: can control flow from b reach a back edge of loop li (staying inside the loop)?
func (fr *frame) reachesBackEdge(b *ssa.BasicBlock, li *loopInfo) bool {
	seen := map[*ssa.BasicBlock]bool{}
	stack := []*ssa.BasicBlock{b}
	for len(stack) > 0 {
		x := stack[len(stack)-1]
		stack = stack[:len(stack)-1]
		if seen[x] {
			continue
		}
		seen[x] = true
		for _, s := range x.Succs {
			if s == li.header {
				return true
			}
			if li.blocks[s] {
				stack = append(stack, s)
			}
		}
	}
	return false
}

// guardedCheck: accesses to fields declared `guarded S.f by lockfield` need the lock.
func (fr *frame) guardedCheck(p *Ptr, write bool, pos token.Pos) {
	u := fr.u
	if p.kind != pHeapStruct || len(p.path) == 0 || p.path[0].field < 0 || u.freshRefs[p.ref] {
		return
	}
	st := p.typ.Underlying().(*types.Struct)
	fname := st.Field(p.path[0].field).Name()
	gd, ok := u.eng.CS.Guarded["H."+shortTypeName(p.typ)+"."+fname]
	if !ok {
		return
	}
	lk := u.regKey("Held."+shortTypeName(p.typ)+"."+gd.LockField, "(Array Int Int)")
	cur := fmt.Sprintf("(select %s %s)", fr.st.get(u, lk), p.ref)
	goal := "(= " + cur + " 1)"
	mode := "exclusively"
	if !write && gd.ReadOK {
		goal = "(not (= " + cur + " 0))"
		mode = "(shared suffices)"
	}
	kind := "read"
	if write {
		kind = "write"
	}
	fr.u.addObl("guarded", fmt.Sprintf("%s of %s.%s requires holding %s %s", kind, shortTypeName(p.typ), fname, gd.LockField, mode), fr.pos(pos), fr.cur, goal)
}
