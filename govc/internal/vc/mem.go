package vc

import (
	"fmt"
	"go/types"

	"golang.org/x/tools/go/ssa"
)

func (fr *frame) idxTerm(v ssa.Value) string {
	// index operands may have any integer type; bring them to the index sort
	t := fr.term(fr.val(v))
	ii, ok := basicIntInfo(v.Type())
	if !ok {
		panic(unsupportedf("non-integer index"))
	}
	if fr.u.mode.BV && ii.bits != 64 {
		t, _ = fr.u.mode.convertInt(t, ii, intInfo{64, ii.signed})
	}
	return t
}

func (fr *frame) inBounds(i, n string) string {
	m := fr.u.mode
	return "(and " + m.cmp("<=", m.idxLit(0), i, true) + " " + m.cmp("<", i, n, true) + ")"
}

func (fr *frame) index(x *ssa.Index) Val {
	u := fr.u
	v := fr.val(x.X)
	i := fr.idxTerm(x.Index)
	switch tt := x.X.Type().Underlying().(type) {
	case *types.Array:
		fr.safetyCheck("index", "array index in range", x.Pos(), fr.inBounds(i, u.mode.idxLit(tt.Len())))
		return Val{t: "(select " + fr.term(v) + " " + i + ")", typ: x.Type()}
	case *types.Basic: // string
		s := fr.term(v)
		fr.safetyCheck("index", "string index in range", x.Pos(), fr.inBounds(i, "(S_len "+s+")"))
		return Val{t: "(select (S_arr " + s + ") " + i + ")", typ: x.Type()}
	}
	panic(unsupportedf("index of %s", x.X.Type()))
}

func (fr *frame) indexAddr(x *ssa.IndexAddr) Val {
	u := fr.u
	v := fr.val(x.X)
	i := fr.idxTerm(x.Index)
	switch tt := x.X.Type().Underlying().(type) {
	case *types.Slice:
		s := fr.term(v)
		fr.safetyCheck("index", "slice index in range", x.Pos(), fr.inBounds(i, "(s_len "+s+")"))
		return Val{typ: x.Type(), ptr: &Ptr{kind: pSliceElem, ref: "(s_ref " + s + ")", typ: tt.Elem(), idx: u.elemIdx("(s_off "+s+")", i)}}
	case *types.Pointer:
		at := tt.Elem().Underlying().(*types.Array)
		fr.safetyCheck("index", "array index in range", x.Pos(), fr.inBounds(i, u.mode.idxLit(at.Len())))
		p := fr.asPtr(v, x.X.Type())
		if p.kind == pArray && len(p.path) == 0 {
			return Val{typ: x.Type(), ptr: &Ptr{kind: pSliceElem, ref: p.ref, typ: at.Elem(), idx: i}}
		}
		return Val{typ: x.Type(), ptr: p.extend(pathEl{field: -1, owner: tt.Elem(), idx: i})}
	}
	panic(unsupportedf("index address of %s", x.X.Type()))
}

func (fr *frame) lookup(x *ssa.Lookup) Val {
	u := fr.u
	v := fr.val(x.X)
	switch tt := x.X.Type().Underlying().(type) {
	case *types.Map:
		m := fr.term(v)
		k := fr.term(fr.val(x.Index))
		dom := fmt.Sprintf("(select (select %s %s) %s)", fr.st.get(u, u.keyMapDom(tt)), m, k)
		val := fmt.Sprintf("(select (select %s %s) %s)", fr.st.get(u, u.keyMapVal(tt)), m, k)
		res := Val{t: fmt.Sprintf("(ite %s %s %s)", dom, val, u.zero(tt.Elem())), typ: tt.Elem()}
		if x.CommaOk {
			return Val{typ: x.Type(), tup: []Val{res, {t: dom, typ: types.Typ[types.Bool]}}}
		}
		return res
	case *types.Basic:
		s := fr.term(v)
		i := fr.idxTerm(x.Index)
		fr.safetyCheck("index", "string index in range", x.Pos(), fr.inBounds(i, "(S_len "+s+")"))
		return Val{t: "(select (S_arr " + s + ") " + i + ")", typ: x.Type()}
	}
	panic(unsupportedf("lookup in %s", x.X.Type()))
}

func (fr *frame) mapUpdate(x *ssa.MapUpdate) {
	u := fr.u
	mt := x.Map.Type().Underlying().(*types.Map)
	m := fr.term(fr.val(x.Map))
	k := fr.term(fr.val(x.Key))
	v := fr.term(fr.val(x.Value))
	fr.safetyCheck("nil", "assignment to entry in nil map", x.Pos(), "(not (= "+m+" 0))")
	kd, kv, kl := u.keyMapDom(mt), u.keyMapVal(mt), u.keyMapLen()
	d, vv, l := fr.st.get(u, kd), fr.st.get(u, kv), fr.st.get(u, kl)
	fr.st.setAt(kl, fmt.Sprintf("(store %s %s (ite (select (select %s %s) %s) (select %s %s) (+ (select %s %s) 1)))", l, m, d, m, k, l, m, l, m), m)
	fr.st.setAt(kd, fmt.Sprintf("(store %s %s (store (select %s %s) %s true))", d, m, d, m, k), m)
	fr.st.setAt(kv, fmt.Sprintf("(store %s %s (store (select %s %s) %s %s))", vv, m, vv, m, k, v), m)
}

func (fr *frame) makeSlice(x *ssa.MakeSlice) Val {
	u := fr.u
	st := x.Type().Underlying().(*types.Slice)
	n := fr.idxTerm(x.Len)
	c := fr.idxTerm(x.Cap)
	m := u.mode
	fr.safetyCheck("makelen", "make: 0 <= len <= cap", x.Pos(), "(and "+m.cmp("<=", m.idxLit(0), n, true)+" "+m.cmp("<=", n, c, true)+")")
	r := fr.freshRef()
	k := u.keyM(st.Elem())
	fr.st.setAt(k, fmt.Sprintf("(store %s %s %s)", fr.st.get(u, k), r, u.zero(types.NewArray(st.Elem(), 0))), r)
	return Val{t: u.define(fr.tag(x.Name()), "Slc", fmt.Sprintf("(mk-slc %s %s %s %s)", r, m.idxLit(0), n, c)), typ: x.Type()}
}

func (fr *frame) slice(x *ssa.Slice) Val {
	u := fr.u
	m := u.mode
	v := fr.val(x.X)
	opt := func(e ssa.Value, def string) string {
		if e == nil {
			return def
		}
		return fr.idxTerm(e)
	}
	switch tt := x.X.Type().Underlying().(type) {
	case *types.Slice:
		s := fr.term(v)
		lo := opt(x.Low, m.idxLit(0))
		hi := opt(x.High, "(s_len "+s+")")
		mx := opt(x.Max, "(s_cap "+s+")")
		fr.safetyCheck("slice", "slice bounds: 0 <= low <= high <= max <= cap", x.Pos(),
			fmt.Sprintf("(and %s %s %s %s)", m.cmp("<=", m.idxLit(0), lo, true), m.cmp("<=", lo, hi, true), m.cmp("<=", hi, mx, true), m.cmp("<=", mx, "(s_cap "+s+")", true)))
		t := fmt.Sprintf("(mk-slc (s_ref %s) %s %s %s)", s, u.idxAdd("(s_off "+s+")", lo), u.idxSub(hi, lo), u.idxSub(mx, lo))
		return Val{t: u.define(fr.tag(x.Name()), "Slc", t), typ: x.Type()}
	case *types.Basic: // string
		s := fr.term(v)
		lo := opt(x.Low, m.idxLit(0))
		hi := opt(x.High, "(S_len "+s+")")
		fr.safetyCheck("slice", "string slice bounds: 0 <= low <= high <= len", x.Pos(),
			fmt.Sprintf("(and %s %s %s)", m.cmp("<=", m.idxLit(0), lo, true), m.cmp("<=", lo, hi, true), m.cmp("<=", hi, "(S_len "+s+")", true)))
		return Val{t: fmt.Sprintf("(mk-str %s %s)", u.shift("(S_arr "+s+")", lo), u.idxSub(hi, lo)), typ: x.Type()}
	case *types.Pointer:
		at := tt.Elem().Underlying().(*types.Array)
		p := fr.asPtr(v, x.X.Type())
		if p.kind != pArray || len(p.path) != 0 {
			// an array embedded in a struct / local cell: the slice is modelled as a copy of it
			// (reads are exact; writes through the slice are not reflected back)
			u.note("%s: slice of an embedded array modelled as a copy (writes through it are not reflected back)", fr.fn.Name())
			r := fr.freshRef()
			k := u.keyM(at.Elem())
			fr.st.setAt(k, fmt.Sprintf("(store %s %s %s)", fr.st.get(u, k), r, u.loadPtr(p, fr.st)), r)
			p = &Ptr{kind: pArray, ref: r, typ: at.Elem(), n: at.Len()}
		}
		n := m.idxLit(at.Len())
		lo := opt(x.Low, m.idxLit(0))
		hi := opt(x.High, n)
		mx := opt(x.Max, n)
		fr.safetyCheck("slice", "slice bounds: 0 <= low <= high <= max <= len(array)", x.Pos(),
			fmt.Sprintf("(and %s %s %s %s)", m.cmp("<=", m.idxLit(0), lo, true), m.cmp("<=", lo, hi, true), m.cmp("<=", hi, mx, true), m.cmp("<=", mx, n, true)))
		t := fmt.Sprintf("(mk-slc %s %s %s %s)", p.ref, lo, u.idxSub(hi, lo), u.idxSub(mx, lo))
		return Val{t: u.define(fr.tag(x.Name()), "Slc", t), typ: x.Type()}
	}
	panic(unsupportedf("slice of %s", x.X.Type()))
}

// appendOp implements the builtin append(s, t...) following the Go specification:
// in place when the capacity suffices, otherwise into a fresh backing array.
func (fr *frame) appendOp(c *ssa.CallCommon, pos ssa.Instruction) Val {
	u := fr.u
	m := u.mode
	st := c.Args[0].Type().Underlying().(*types.Slice)
	s := fr.term(fr.val(c.Args[0]))
	if isString(c.Args[1].Type()) {
		panic(unsupportedf("append(bytes, string...)"))
	}
	t := fr.term(fr.val(c.Args[1]))
	k := u.keyM(st.Elem())
	M := fr.st.get(u, k)
	es := u.sortOf(st.Elem())
	I := m.idxSort()
	n := "(s_len " + t + ")"
	newLen := u.define(fr.tag("applen"), I, u.idxAdd("(s_len "+s+")", n))
	fits := u.define(fr.tag("appfits"), "Bool", m.cmp("<=", newLen, "(s_cap "+s+")", true))
	r := fr.freshRef()
	newCap := u.declConst(fr.tag("appcap"), I)
	u.assert(m.cmp("<=", newLen, newCap, true))
	u.assert(u.lenBound(newCap))
	srcArr := fmt.Sprintf("(select %s (s_ref %s))", M, s)
	tArr := fmt.Sprintf("(select %s (s_ref %s))", M, t)
	inPlace := u.blitOf(es, srcArr, u.idxAdd("(s_off "+s+")", "(s_len "+s+")"), tArr, "(s_off "+t+")", n)
	copied := u.blitOf(es, u.shiftOf(es, srcArr, "(s_off "+s+")"), "(s_len "+s+")", tArr, "(s_off "+t+")", n)
	resRef := u.define(fr.tag("appref"), "Int", fmt.Sprintf("(ite %s (s_ref %s) %s)", fits, s, r))
	fr.st.setAt(k, fmt.Sprintf("(store %s %s (ite %s %s %s))", M, resRef, fits, inPlace, copied), "(s_ref "+s+")", r)
	res := fmt.Sprintf("(mk-slc %s (ite %s (s_off %s) %s) %s (ite %s (s_cap %s) %s))", resRef, fits, s, m.idxLit(0), newLen, fits, s, newCap)
	_ = pos
	return Val{t: u.define(fr.tag("append"), "Slc", res), typ: c.Args[0].Type()}
}

func (fr *frame) copyOp(c *ssa.CallCommon) Val {
	u := fr.u
	m := u.mode
	d := fr.term(fr.val(c.Args[0]))
	st := c.Args[0].Type().Underlying().(*types.Slice)
	I := m.idxSort()
	es := u.sortOf(st.Elem())
	k := u.keyM(st.Elem())
	M := fr.st.get(u, k)
	var srcLen, srcArr, srcOff string
	if isString(c.Args[1].Type()) {
		s := fr.term(fr.val(c.Args[1]))
		srcLen, srcArr, srcOff = "(S_len "+s+")", "(S_arr "+s+")", m.idxLit(0)
	} else {
		s := fr.term(fr.val(c.Args[1]))
		srcLen, srcArr, srcOff = "(s_len "+s+")", fmt.Sprintf("(select %s (s_ref %s))", M, s), "(s_off "+s+")"
	}
	n := u.define(fr.tag("copyn"), I, fmt.Sprintf("(ite %s (s_len %s) %s)", m.cmp("<=", "(s_len "+d+")", srcLen, true), d, srcLen))
	old := fmt.Sprintf("(select %s (s_ref %s))", M, d)
	fr.st.setAt(k, fmt.Sprintf("(store %s (s_ref %s) %s)", M, d, u.blitOf(es, old, "(s_off "+d+")", srcArr, srcOff, n)), "(s_ref "+d+")")
	return Val{t: n, typ: types.Typ[types.Int]}
}
