package vc

import (
	"golang.org/x/tools/go/ssa"
)

func (fr *frame) runDefers(x *ssa.RunDefers) {
	if len(fr.defers) == 0 {
		return
	}
	fr.runDeferStack(x)
}

func (fr *frame) goStmt(x *ssa.Go) {
	// goroutines are not modelled: everything the goroutine may touch is havoc'd
	fr.havocAll("go statement (goroutines are not modelled)")
	fr.havocCells()
}

func (fr *frame) chanOp(ins ssa.Instruction) {
	switch x := ins.(type) {
	case *ssa.MakeChan:
		fr.vals[x] = Val{t: fr.freshRef(), typ: x.Type()}
	case *ssa.Send:
		fr.u.note("%s: channel send not modelled", fr.fn.Name())
	case *ssa.Select:
		fr.u.note("%s: select not modelled (outcome unconstrained)", fr.fn.Name())
		fr.vals[x] = fr.abstractValue(x, "select")
	}
}

// havocCells havocs the local cells that escape into closures (captured by reference)
func (fr *frame) havocCells() {
	u := fr.u
	for k := range fr.st.over {
		if len(k) > 5 && k[:5] == "cell." {
			fr.st.set(k, u.declConst(fr.tag("hv_cell"), u.keySort[k]))
		}
	}
}

func (fr *frame) rangeInit(x *ssa.Range) Val {
	panic(unsupportedf("range over map/string"))
}

func (fr *frame) rangeNext(x *ssa.Next) Val {
	panic(unsupportedf("range over map/string"))
}

func (fr *frame) runDeferStack(x *ssa.RunDefers) {
	panic(unsupportedf("defer"))
}
