package vc

import (
	"fmt"
	"go/types"

	"golang.org/x/tools/go/ssa"
)

func (fr *frame) runDefers(x *ssa.RunDefers) {
	if len(fr.defers) == 0 {
		return
	}
	fr.runDeferStack(x)
}

// havocCaptures havocs what a closure value may assign among its captured variables
func (fr *frame) havocCaptures(fv Val) {
	fr.havocCapturesOf(fv)
}

func (fr *frame) goStmt(x *ssa.Go) {
	// Goroutines are not modelled. Interference of other threads with shared state is outside
	// the sequential model everywhere; what a spawned goroutine communicates back through
	// variables it captures by reference is havoc'd here (the spawning function may read them
	// later, e.g. after wg.Wait()).
	u := fr.u
	u.note("%s: go statement: the variables captured by the goroutine are havoc'd, its other effects are concurrent effects (not modelled)", fr.fn.Name())
	fr.havocCapturesOf(fr.val(x.Call.Value))
}

func (fr *frame) havocCapturesOf(fv Val) {
	u := fr.u
	// the closure may allocate: the allocation counter moves forward, and whatever references it
	// leaves in the captured variables point to objects that exist afterwards
	allocPre := fr.st.get(u, u.regKey(allocKey, "Int"))
	allocPost := u.declConst(fr.tag("alloc_hv"), "Int")
	u.assert("(>= " + allocPost + " " + allocPre + ")")
	fr.st.set(allocKey, allocPost)
	for i, b := range fv.binds {
		if fv.fn == nil || i >= len(fv.fn.FreeVars) {
			break
		}
		pt, ok := fv.fn.FreeVars[i].Type().Underlying().(*types.Pointer)
		if !ok {
			continue
		}
		p := fr.asPtr(b, fv.fn.FreeVars[i].Type())
		hdr, contents := freeVarWrites(fv.fn.FreeVars[i])
		if !hdr {
			// the goroutine never assigns the captured variable itself
			if sl, ok := pt.Elem().Underlying().(*types.Slice); ok && contents {
				// ... but may write elements of the slice it holds
				cur := u.loadPtr(p, fr.st)
				k := u.keyM(sl.Elem())
				arr := u.declConst(fr.tag("gohv_elems"), fmt.Sprintf("(Array %s %s)", u.mode.idxSort(), u.sortOf(sl.Elem())))
				for _, rt := range u.refTermsOf("(select "+arr+" i!g)", sl.Elem(), 0) {
					u.assert(fmt.Sprintf("(forall ((i!g %s)) (! (<= %s %s) :pattern ((select %s i!g))))", u.mode.idxSort(), rt, allocPost, arr))
				}
				fr.st.setAt(k, fmt.Sprintf("(store %s (s_ref %s) %s)", fr.st.get(u, k), cur, arr), "(s_ref "+cur+")")
				if ti := u.typeInvariant("(select "+arr+" i!g)", sl.Elem(), 0); ti != "" {
					u.assert(fmt.Sprintf("(forall ((i!g %s)) (! %s :pattern ((select %s i!g))))", u.mode.idxSort(), ti, arr))
				}
				continue
			}
			if !contents {
				continue
			}
			// the closure only reads the variable and passes its value on: the variable keeps its
			// value; what happens to the object it refers to is the business of the closure's
			// modifies clause (checked in the closure's own unit) when it has one
			if ct := u.eng.ContractFor(fv.fn); ct != nil && ct.HasMod {
				continue
			}
		}
		c := u.declConst(fr.tag("gohv"), u.sortOf(pt.Elem()))
		if ti := u.typeInvariant(c, pt.Elem(), 0); ti != "" {
			u.assert(ti)
		}
		if isRefLike(pt.Elem()) {
			u.assert("(>= " + refOf(c, pt.Elem()) + " 0)")
		}
		for _, rt := range u.refTermsOf(c, pt.Elem(), 0) {
			u.assert("(<= " + rt + " " + allocPost + ")")
		}
		u.storePtr(p, fr.st, c)
		if sl, ok := pt.Elem().Underlying().(*types.Slice); ok {
			k := u.keyM(sl.Elem())
			hc := u.declConst(fr.tag("gohv_"+k), u.keySort[k])
			u.heapTypingA(k, hc, allocPost)
			fr.st.set(k, hc)
		}
	}
}

func (fr *frame) chanOp(ins ssa.Instruction) {
	switch x := ins.(type) {
	case *ssa.MakeChan:
		fr.vals[x] = Val{t: fr.freshRef(), typ: x.Type()}
	case *ssa.Send:
		fr.u.note("%s: channel send not modelled", fr.fn.Name())
		fr.chanBlock("channel send", x.Pos())
	case *ssa.Select:
		fr.u.note("%s: select not modelled (outcome unconstrained)", fr.fn.Name())
		fr.vals[x] = fr.abstractValue(x, "select")
	}
}

// havocCells havocs the local cells that escape into closures (captured by reference)
func (fr *frame) havocCells() {
	u := fr.u
	for k := range fr.st.over {
		if len(k) > 5 && k[:5] == "cell." {
			fr.st.set(k, u.declConst(fr.tag("hv_cell"), u.keySort[k]))
		}
	}
}

type rangeInfo struct {
	key  string // ghost state key: set of visited keys (map) / current byte index (string)
	m    Val
	mt   *types.Map
	str  bool // range over a string
}

// rangeInit: iteration over a map is modelled with a ghost set of visited keys
// (each key of the domain exactly once, order unspecified).
func (fr *frame) rangeInit(x *ssa.Range) Val {
	u := fr.u
	mt, ok := x.X.Type().Underlying().(*types.Map)
	if !ok {
		// range over a string (int mode only): the iterator state is the byte index. A byte below 0x80
		// is its own rune and advances by one; any other lead byte yields some rune >= 0x80 (a decoded
		// code point or the replacement character) and advances by 1 to 4 bytes.
		if u.mode.BV {
			panic(unsupportedf("range over string in bv mode"))
		}
		key := u.regKey(fmt.Sprintf("iter.f%d.%s", fr.id, x.Name()), "Int")
		fr.st.set(key, "0")
		if fr.ranges == nil {
			fr.ranges = map[*ssa.Range]*rangeInfo{}
		}
		fr.ranges[x] = &rangeInfo{key: key, m: fr.val(x.X), str: true}
		return Val{t: "0", typ: x.Type()}
	}
	key := u.regKey(fmt.Sprintf("iter.f%d.%s", fr.id, x.Name()), "(Array "+u.sortOf(mt.Key())+" Bool)")
	fr.st.set(key, "((as const (Array "+u.sortOf(mt.Key())+" Bool)) false)")
	if fr.ranges == nil {
		fr.ranges = map[*ssa.Range]*rangeInfo{}
	}
	fr.ranges[x] = &rangeInfo{key: key, m: fr.val(x.X), mt: mt}
	return Val{t: "0", typ: x.Type()}
}

func (fr *frame) rangeNext(x *ssa.Next) Val {
	u := fr.u
	r, ok := x.Iter.(*ssa.Range)
	if !ok || fr.ranges[r] == nil {
		panic(unsupportedf("next on an unknown iterator"))
	}
	ri := fr.ranges[r]
	if ri.str {
		sT := fr.term(ri.m)
		idx := fr.st.get(u, ri.key)
		okc := u.define(fr.tag("next_ok"), "Bool", fmt.Sprintf("(< %s (S_len %s))", idx, sT))
		tup := x.Type().(*types.Tuple)
		rn := u.declConst(fr.tag("next_rune"), "Int")
		nx := u.declConst(fr.tag("next_idx"), "Int")
		b := fmt.Sprintf("(select (S_arr %s) %s)", sT, idx)
		fr.assume(fmt.Sprintf("(=> %s (and (>= %s 0) (=> (< %s 128) (and (= %s %s) (= %s (+ %s 1)))) (=> (>= %s 128) (and (>= %s 128) (<= %s 1114111) (> %s %s) (<= %s (+ %s 4)) (<= %s (S_len %s))))))", okc, idx, b, rn, b, nx, idx, b, rn, rn, nx, idx, nx, idx, nx, sT))
		fr.st.set(ri.key, fmt.Sprintf("(ite %s %s %s)", okc, nx, idx))
		return Val{typ: x.Type(), tup: []Val{{t: okc, typ: tup.At(0).Type()}, {t: idx, typ: tup.At(1).Type()}, {t: rn, typ: tup.At(2).Type()}}}
	}
	m := fr.term(ri.m)
	okc := u.declConst(fr.tag("next_ok"), "Bool")
	k := fr.freshOfType("next_key", ri.mt.Key())
	dom := fmt.Sprintf("(select %s %s)", fr.st.get(u, u.keyMapDom(ri.mt)), m)
	vis := fr.st.get(u, ri.key)
	val := fmt.Sprintf("(select (select %s %s) %s)", fr.st.get(u, u.keyMapVal(ri.mt)), m, k.t)
	fr.assume(fmt.Sprintf("(=> %s (and (select %s %s) (not (select %s %s))))", okc, dom, k.t, vis, k.t))
	ks := u.sortOf(ri.mt.Key())
	fr.assume(fmt.Sprintf("(=> (not %s) (forall ((x!k %s)) (! (=> (select %s x!k) (select %s x!k)) :pattern ((select %s x!k)))))", okc, ks, dom, vis, dom))
	fr.st.set(ri.key, fmt.Sprintf("(ite %s (store %s %s true) %s)", okc, vis, k.t, vis))
	tup := x.Type().(*types.Tuple)
	v := Val{t: val, typ: ri.mt.Elem()}
	if ti := u.typeInvariant(val, ri.mt.Elem(), 1); ti != "" {
		fr.assume("(=> " + okc + " " + ti + ")")
	}
	return Val{typ: x.Type(), tup: []Val{{t: okc, typ: tup.At(0).Type()}, k, v}}
}

// runDeferStack executes the deferred calls in LIFO order, each guarded by the path
// condition under which its defer statement was executed.
func (fr *frame) runDeferStack(x *ssa.RunDefers) {
	u := fr.u
	for i := len(fr.defers) - 1; i >= 0; i-- {
		d := fr.defers[i]
		if d.inLoop {
			if d.fnv.fn != nil {
				if ct := u.eng.ContractFor(d.fnv.fn); ct != nil && ct.Pure {
					u.note("%s: deferred calls to %s registered inside a loop have no effect on modelled state (pure contract)", fr.fn.Name(), d.fnv.fn.Name())
					continue
				}
			}
			fr.havocAll("deferred call registered inside a loop")
			continue
		}
		before := fr.st.clone()
		beforeCur := fr.cur
		fr.cur = u.define(fr.tag("defercond"), "Bool", "(and "+fr.cur+" "+d.cond+")")
		c := &d.call.Call
		func() {
			if b, ok := c.Value.(*ssa.Builtin); ok {
				switch b.Name() {
				case "close", "recover", "print", "println":
					return
				}
				fr.havocAll("deferred builtin " + b.Name())
				return
			}
			if c.IsInvoke() {
				fr.invokeCallVals(deferVal{d.call}, c, d.fnv, d.args)
				return
			}
			if d.fnv.fn != nil {
				fr.callFunction(deferVal{d.call}, d.fnv.fn, d.args, d.fnv.binds, d.call)
				return
			}
			if d.fnv.t != "" || d.fnv.typ != nil {
				if cv, ok := d.call.Call.Value.(ssa.Value); ok {
					_ = cv
					fr.dynamicCallVals(deferVal{d.call}, &d.call.Call, d.fnv, d.args)
					return
				}
			}
			fr.havocAll("deferred call through an unknown function value")
		}()
		// merge: the call happened only if its defer was executed
		after := fr.st
		ws := after.ws
		fr.st = mergeStates(u, fr.tag("deferjoin"), []mergeIn{{d.cond, after}, {"true", before}})
		fr.st.ws = ws
		// path condition: if the defer ran, whatever the callee assumed; otherwise unchanged
		fr.cur = u.define(fr.tag("pcd"), "Bool", "(and "+beforeCur+" (=> "+d.cond+" "+fr.cur+"))")
	}
}

// deferVal lets a deferred call flow through the call machinery (which wants an ssa.Value
// for the result type and an instruction for the position).
type deferVal struct {
	*ssa.Defer
}

func (d deferVal) Name() string { return "defer" }
func (d deferVal) Type() types.Type {
	return d.Defer.Call.Signature().Results()
}
func (d deferVal) Referrers() *[]ssa.Instruction { return nil }

// freeVarWrites inspects a goroutine closure: does it assign the captured variable itself
// (hdr), and may it write through it / pass it on (contents)?
func freeVarWrites(fv *ssa.FreeVar) (hdr, contents bool) {
	return addrWrites(fv, 0)
}

// addrWrites inspects the uses of an address (a captured variable or a field / element address
// derived from it): is something stored through it (hdr), and may what is loaded from it be used
// to write elsewhere or be passed on (contents)?
func addrWrites(addr ssa.Value, depth int) (hdr, contents bool) {
	refs := addr.Referrers()
	if refs == nil || depth > 6 {
		return true, true
	}
	for _, r := range *refs {
		switch x := r.(type) {
		case *ssa.DebugRef:
		case *ssa.Store:
			if x.Addr == addr {
				hdr = true
			} else {
				hdr, contents = true, true
			}
		case *ssa.FieldAddr:
			if x.X == addr {
				h, c := addrWrites(x, depth+1)
				hdr, contents = hdr || h, contents || c
			} else {
				hdr, contents = true, true
			}
		case *ssa.IndexAddr:
			if x.X == addr {
				h, c := addrWrites(x, depth+1)
				hdr, contents = hdr || h, contents || c
			} else {
				hdr, contents = true, true
			}
		case *ssa.UnOp:
			// a load of the variable: what happens to the loaded value?
			if lr := x.Referrers(); lr != nil {
				for _, u := range *lr {
					switch u.(type) {
					case *ssa.DebugRef:
					case *ssa.IndexAddr, *ssa.Call, *ssa.Slice, *ssa.MapUpdate, *ssa.FieldAddr, *ssa.Store, *ssa.MakeClosure, *ssa.Go, *ssa.Defer:
						contents = true
					}
				}
			}
		case *ssa.MakeClosure, *ssa.Call, *ssa.Go, *ssa.Defer:
			hdr, contents = true, true
		default:
			hdr, contents = true, true
		}
	}
	return
}
