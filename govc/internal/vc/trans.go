package vc

// SSA -> SMT translation of one function activation (frame): acyclic CFG encoding with
// loops cut at their headers.

import (
	"os"
	"fmt"
	"go/constant"
	"go/token"
	"go/types"
	"sort"
	"strings"

	"golang.org/x/tools/go/ssa"
)

// BlockCovers: generate an advisory reachability cover for the end of every basic block of the
// functions under contract (thorough tier and development runs)
var BlockCovers = os.Getenv("GOVC_BLOCKCOVERS") != ""

type retPoint struct {
	cur     string
	results []Val
	st      *state
	blk     *ssa.BasicBlock
}

type backEdge struct {
	cond string
	st   *state
	from *ssa.BasicBlock
}

type loopInfo struct {
	header    *ssa.BasicBlock
	blocks    map[*ssa.BasicBlock]bool
	ord       int
	hav       *havocProv
	entry     *state
	entryCur  string
	backs     []backEdge
	remaining int
	phiEntry  map[*ssa.Phi]Val
	spec      *LoopSpec
	unknownCall bool
}

type dbgBind struct {
	name   string
	v      ssa.Value
	isAddr bool
	idx    int
	obj    types.Object
}

type frame struct {
	u        *Unit
	fn       *ssa.Function
	id       int
	depth    int
	top      bool
	contract *Contract
	vals     map[ssa.Value]Val
	out      map[*ssa.BasicBlock]*state
	outCur   map[*ssa.BasicBlock]string
	edge     map[[2]int]string
	loops    map[*ssa.BasicBlock]*loopInfo
	written  map[*ssa.BasicBlock]map[string]bool
	parentWs []map[string]bool
	rets     []retPoint
	entry    *state
	cur      string
	st       *state
	blk      *ssa.BasicBlock
	dbg      map[*ssa.BasicBlock][]dbgBind
	paramVal map[string]Val
	defers   []deferred
	lockEv   []string
	callLog  map[string][][]Val // arguments of the calls made so far, by callee name
	resLog   map[string][]Val   // results of those calls
	callPos  map[string][]token.Pos // source positions of those calls (callarg/callres count call sites in source order)
	ranges   map[*ssa.Range]*rangeInfo
	cellOf   map[types.Object]ssa.Value // variables living in a cell (address taken / captured)
}

type deferred struct {
	cond   string
	call   *ssa.Defer
	fnv    Val
	args   []Val
	inLoop bool
}

func (u *Unit) newFrame(fn *ssa.Function, depth int, parentWs []map[string]bool) *frame {
	u.frames++
	return &frame{u: u, fn: fn, id: u.frames, depth: depth, vals: map[ssa.Value]Val{}, out: map[*ssa.BasicBlock]*state{}, outCur: map[*ssa.BasicBlock]string{},
		edge: map[[2]int]string{}, loops: map[*ssa.BasicBlock]*loopInfo{}, written: map[*ssa.BasicBlock]map[string]bool{}, parentWs: parentWs,
		dbg: map[*ssa.BasicBlock][]dbgBind{}, paramVal: map[string]Val{}}
}

func (fr *frame) tag(s string) string { return fmt.Sprintf("f%d.%s", fr.id, s) }

func (fr *frame) pos(p token.Pos) string { return fr.u.eng.pos(p) }

// assume strengthens the current path condition
func (fr *frame) assume(c string) {
	if c == "" || c == "true" {
		return
	}
	fr.cur = fr.u.define(fr.tag("pc"), "Bool", "(and "+fr.cur+" "+c+")")
}

func (fr *frame) oblige(kind, desc string, pos token.Pos, goal string) {
	if goal == "true" {
		return
	}
	fr.u.addObl(kind, desc, fr.pos(pos), fr.cur, goal)
}

func (fr *frame) obligeO(kind, desc string, pos token.Pos, goal string) *Obligation {
	if goal == "true" {
		return nil
	}
	return fr.u.addObl(kind, desc, fr.pos(pos), fr.cur, goal)
}

func (fr *frame) safetyCheck(kind, desc string, pos token.Pos, goal string) {
	if goal == "true" {
		return
	}
	if fr.u.safety[kind] {
		fr.oblige("safety."+kind, desc, pos, goal)
	} else {
		fr.u.note("safety kind %q not checked (assumed)", kind)
	}
	fr.assume(goal)
}

// ---------------------------------------------------------------- CFG analysis

func (fr *frame) analyseLoops() []*ssa.BasicBlock {
	fn := fr.fn
	// back edges: P -> H with H dominating P
	for _, b := range fn.Blocks {
		for _, s := range b.Succs {
			if s.Dominates(b) {
				li := fr.loops[s]
				if li == nil {
					li = &loopInfo{header: s, blocks: map[*ssa.BasicBlock]bool{s: true}, phiEntry: map[*ssa.Phi]Val{}}
					fr.loops[s] = li
				}
				li.remaining++
				// natural loop body
				stack := []*ssa.BasicBlock{b}
				for len(stack) > 0 {
					x := stack[len(stack)-1]
					stack = stack[:len(stack)-1]
					if li.blocks[x] {
						continue
					}
					li.blocks[x] = true
					stack = append(stack, x.Preds...)
				}
			}
		}
	}
	var hs []*ssa.BasicBlock
	for h := range fr.loops {
		hs = append(hs, h)
	}
	sort.Slice(hs, func(i, j int) bool { return hs[i].Index < hs[j].Index })
	for i, h := range hs {
		fr.loops[h].ord = i + 1
		if fr.contract != nil {
			fr.loops[h].spec = fr.contract.Loops[i+1]
		}
	}
	// reverse postorder ignoring back edges
	visited := map[*ssa.BasicBlock]bool{}
	var post []*ssa.BasicBlock
	var dfs func(b *ssa.BasicBlock)
	dfs = func(b *ssa.BasicBlock) {
		visited[b] = true
		for _, s := range b.Succs {
			if s.Dominates(b) { // back edge
				continue
			}
			if !visited[s] {
				dfs(s)
			}
		}
		post = append(post, b)
	}
	if len(fn.Blocks) > 0 {
		dfs(fn.Blocks[0])
	}
	for i, j := 0, len(post)-1; i < j; i, j = i+1, j-1 {
		post[i], post[j] = post[j], post[i]
	}
	return post
}

func (fr *frame) collectDebug() {
	for _, b := range fr.fn.Blocks {
		for i, ins := range b.Instrs {
			if d, ok := ins.(*ssa.DebugRef); ok {
				if id, ok := d.Expr.(interface{ String() string }); ok {
					_ = id
				}
				if obj := d.Object(); obj != nil {
					if _, isVar := obj.(*types.Var); isVar {
						fr.dbg[b] = append(fr.dbg[b], dbgBind{name: obj.Name(), v: d.X, isAddr: d.IsAddr, idx: i, obj: obj})
						if d.IsAddr {
							if fr.cellOf == nil {
								fr.cellOf = map[types.Object]ssa.Value{}
							}
							if _, isAlloc := d.X.(*ssa.Alloc); isAlloc {
								fr.cellOf[obj] = d.X
							} else if _, isFree := d.X.(*ssa.FreeVar); isFree {
								fr.cellOf[obj] = d.X
							}
						}
					}
				}
			}
		}
	}
}

// ---------------------------------------------------------------- running a frame

// run translates the body. params are the values of fn.Params, free of fn.FreeVars.
func (fr *frame) run(params, free []Val, st0 *state, cur0 string) {
	u := fr.u
	fn := fr.fn
	if len(fn.Blocks) == 0 {
		panic(unsupportedf("function %s has no body (external/assembly)", fn))
	}
	for i, p := range fn.Params {
		fr.vals[p] = params[i]
		fr.paramVal[p.Name()] = params[i]
	}
	for i, p := range fn.FreeVars {
		fr.vals[p] = free[i]
	}
	fr.entry = st0
	order := fr.analyseLoops()
	fr.collectDebug()
	for _, b := range order {
		fr.blk = b
		w := map[string]bool{}
		fr.written[b] = w
		ws := append(append([]map[string]bool{}, fr.parentWs...), w)
		var reach string
		var st *state
		li := fr.loops[b]
		if b.Index == 0 {
			reach = cur0
			st = st0.clone()
		} else {
			var ins []mergeIn
			var conds []string
			for _, p := range b.Preds {
				if li != nil && li.blocks[p] {
					continue // back edge
				}
				c, ok := fr.edge[[2]int{p.Index, b.Index}]
				if !ok {
					continue // predecessor unreachable / not processed
				}
				ins = append(ins, mergeIn{c, fr.out[p]})
				conds = append(conds, c)
			}
			if len(ins) == 0 {
				continue
			}
			if len(conds) == 1 {
				reach = conds[0]
			} else {
				reach = u.define(fr.tag(fmt.Sprintf("reach%d", b.Index)), "Bool", "(or "+strings.Join(conds, " ")+")")
			}
			st = mergeStates(u, fr.tag(fmt.Sprintf("b%d", b.Index)), ins)
		}
		st.ws = ws
		fr.st = st
		fr.cur = reach
		if li != nil {
			fr.enterLoop(li, b)
		} else {
			// phis
			for _, ins := range b.Instrs {
				phi, ok := ins.(*ssa.Phi)
				if !ok {
					break
				}
				fr.vals[phi] = fr.mergePhi(phi, b, nil)
			}
		}
		for _, ins := range b.Instrs {
			if _, ok := ins.(*ssa.Phi); ok {
				continue
			}
			fr.instr(ins)
		}
		if BlockCovers && fr.top && fr.depth == 0 && len(b.Instrs) > 0 {
			// advisory: the end of this block is reachable under everything assumed so far (an
			// unreachable one is dead code or the trace of contradictory assumptions, e.g. a callee
			// contract that forgets an allocation)
			if o := u.addObl("cover.block", fmt.Sprintf("the end of block %d is reachable (advisory)", b.Index), fr.u.eng.pos(firstPos(b)), "true", fr.cur); o != nil {
				o.Cover = true
				o.Advisory = true
			}
		}
		fr.out[b] = fr.st
		fr.outCur[b] = fr.cur
		// back edges from this block
		for _, s := range b.Succs {
			if l2 := fr.loops[s]; l2 != nil && l2.blocks[b] && s.Dominates(b) {
				l2.backs = append(l2.backs, backEdge{cond: fr.edge[[2]int{b.Index, s.Index}], st: fr.st, from: b})
				l2.remaining--
				if l2.remaining == 0 {
					fr.finishLoop(l2)
				}
			}
		}
	}
}

// mergePhi computes the value of a phi from its (non-back) incoming edges.
func (fr *frame) mergePhi(phi *ssa.Phi, b *ssa.BasicBlock, li *loopInfo) Val {
	u := fr.u
	type in struct {
		cond string
		v    Val
	}
	var ins []in
	for i, p := range b.Preds {
		if li != nil && li.blocks[p] {
			continue
		}
		c, ok := fr.edge[[2]int{p.Index, b.Index}]
		if !ok {
			continue
		}
		ins = append(ins, in{c, fr.val(phi.Edges[i])})
	}
	if len(ins) == 0 {
		panic(unsupportedf("phi without reachable incoming edge"))
	}
	same := true
	for _, x := range ins[1:] {
		if x.v.t != ins[0].v.t || x.v.ptr != ins[0].v.ptr {
			same = false
		}
	}
	if same && (ins[0].v.t != "" || len(ins) == 1) {
		v := ins[0].v
		v.typ = phi.Type()
		return v
	}
	// need SMT terms
	var ts []string
	for _, x := range ins {
		t := fr.term(x.v)
		ts = append(ts, t)
	}
	term := ts[len(ts)-1]
	for i := len(ts) - 2; i >= 0; i-- {
		term = fmt.Sprintf("(ite %s %s %s)", ins[i].cond, ts[i], term)
	}
	name := u.define(fr.tag(phi.Name()), u.sortOf(phi.Type()), term)
	return Val{t: name, typ: phi.Type()}
}

// term materialises a Val as an SMT term
func (fr *frame) term(v Val) string {
	if v.t != "" {
		return v.t
	}
	if v.ptr != nil {
		if r, ok := v.ptr.refTerm(); ok {
			return r
		}
		if fr.contract != nil && fr.contract.Safety["subptr-abstract"] {
			// opt-in (contract: safety +subptr-abstract): the pointer becomes an opaque reference; what it
			// points to is not connected to the sub-object any more. Only sound when nothing is
			// written through such a pointer while the function under contract looks at the object.
			r := fr.u.declConst(fr.tag("subptr"), "Int")
			fr.u.assert("(> " + r + " 0)")
			fr.u.note("%s: a pointer to a field / local sub-object is treated as an opaque reference (its target is not connected to the object)", fr.fn.Name())
			return r
		}
		panic(unsupportedf("pointer into a local/sub-object used as a first-class value"))
	}
	if v.fn != nil {
		return fmt.Sprint(1000000 + fr.u.eng.typeID(types.NewPointer(v.fn.Signature)) + fnOrdinal(fr.u.eng, v.fn))
	}
	panic(unsupportedf("value without SMT representation (type %v)", v.typ))
}

var fnOrd = map[*ssa.Function]int{}

func fnOrdinal(e *Engine, f *ssa.Function) int {
	if n, ok := fnOrd[f]; ok {
		return n
	}
	n := (len(fnOrd) + 1) * 1000
	fnOrd[f] = n
	return n
}

func (fr *frame) enterLoop(li *loopInfo, b *ssa.BasicBlock) {
	u := fr.u
	li.entry = fr.st
	li.entryCur = fr.cur
	// entry values of phis
	var phis []*ssa.Phi
	for _, ins := range b.Instrs {
		phi, ok := ins.(*ssa.Phi)
		if !ok {
			break
		}
		phis = append(phis, phi)
		li.phiEntry[phi] = fr.mergePhi(phi, b, li)
	}
	// inv.init
	if li.spec != nil {
		for k, inv := range li.spec.Invariants {
			env := fr.specEnvAt(b, li.entry, li.phiEntry)
			goal, extra, err := env.goal(inv.E)
			if err != nil {
				fr.u.bindingError(fmt.Sprintf("loop %d invariant %d: %v", li.ord, k+1, err))
				continue
			}
			o := fr.u.addObl(fmt.Sprintf("loop%d.inv.init", li.ord), "invariant holds on loop entry: "+inv.Src, fr.pos(firstPos(b)), li.entryCur, goal)
			o.Extra = extra
		}
	}
	// havoc
	li.hav = &havocProv{tag: fr.tag(fmt.Sprintf("L%d", li.ord)), cache: map[string]string{}, prev: li.entry, startN: u.nfresh, startLine: len(u.lines)}
	ws := fr.st.ws
	fr.st = &state{over: map[string]string{}, base: li.hav, ws: ws, u: u}
	for _, phi := range phis {
		srt := u.sortOf(phi.Type())
		n := u.declConst(fr.tag(phi.Name()+"_"+phi.Comment), srt)
		fr.vals[phi] = Val{t: n, typ: phi.Type()}
		if ti := u.typeInvariant(n, phi.Type(), 0); ti != "" {
			u.assert(ti)
		}
		if isRefLike(phi.Type()) {
			u.assert("(<= " + refOf(n, phi.Type()) + " " + fr.st.get(u, allocKey) + ")")
		}
	}
	// assume invariants
	if li.spec != nil {
		for k, inv := range li.spec.Invariants {
			env := fr.specEnvAt(b, fr.st, nil)
			if _, err := env.boolExpr(inv.E); err != nil {
				fr.u.bindingError(fmt.Sprintf("loop %d invariant %d: %v", li.ord, k+1, err))
				continue
			}
			// conjuncts are assumed one by one; purely quantified conjuncts are marked so that the
			// instance-only variant of an obligation can leave them out (their instances stay)
			for _, cj := range splitConj(inv.E) {
				t, err := env.boolExpr(cj)
				if err != nil {
					continue
				}
				line := "(assert (=> " + fr.cur + " " + t + "))"
				u.emit(line)
				if isQuantConj(cj) {
					u.quantHypLines[len(u.lines)-1] = true
				}
			}
			env.recordHyps(inv.E, fr.cur)
		}
	} else if fr.top {
		u.note("loop %d of %s has no invariant (state havoc'd at the header)", li.ord, fr.fn.Name())
	}
}

func firstPos(b *ssa.BasicBlock) token.Pos {
	for _, i := range b.Instrs {
		if i.Pos().IsValid() {
			return i.Pos()
		}
	}
	return token.NoPos
}

func (fr *frame) finishLoop(li *loopInfo) {
	u := fr.u
	b := li.header
	// inv.pres on each back edge
	if li.spec != nil {
		for k, inv := range li.spec.Invariants {
			var goals, extra []string
			ok := true
			for _, be := range li.backs {
				sub := map[*ssa.Phi]Val{}
				for i, p := range b.Preds {
					if p != be.from {
						continue
					}
					for _, ins := range b.Instrs {
						phi, isPhi := ins.(*ssa.Phi)
						if !isPhi {
							break
						}
						sub[phi] = fr.val(phi.Edges[i])
					}
				}
				env := fr.specEnvAt(b, be.st, sub)
				t, ex, err := env.goal(inv.E)
				if err != nil {
					fr.u.bindingError(fmt.Sprintf("loop %d invariant %d: %v", li.ord, k+1, err))
					ok = false
					break
				}
				extra = append(extra, ex...)
				goals = append(goals, "(=> "+be.cond+" "+t+")")
			}
			if ok {
				g := goals[0]
				if len(goals) > 1 {
					g = "(and " + strings.Join(goals, " ") + ")"
				}
				o := u.addObl(fmt.Sprintf("loop%d.inv.pres", li.ord), "invariant preserved by the loop body: "+inv.Src, fr.pos(firstPos(b)), "true", g)
				o.Extra = extra
				o.Parts = goals
			}
		}
	}
	defer fr.loopFrameObligations(li)
	mod := map[string]bool{}
	for blk := range li.blocks {
		for k := range fr.written[blk] {
			mod[k] = true
		}
	}
	if os.Getenv("GOVC_DEBUG_LOOPMOD") != "" {
		fmt.Fprintf(os.Stderr, "loop %d of %s modifies: %v\n", li.ord, fr.fn.Name(), sortedKeys(mod))
	}
	li.hav.finalize(u, mod, mod["*"] || mod["*conc"])
}

func (u *Unit) bindingError(msg string) {
	u.Undecided = append(u.Undecided, "binding: "+msg)
}

// ---------------------------------------------------------------- values

func (fr *frame) val(v ssa.Value) Val {
	switch x := v.(type) {
	case *ssa.Const:
		return fr.constVal(x)
	case *ssa.Global:
		key := fr.u.keyGlobal(x.Pkg.Pkg.Name()+"."+x.Name(), x.Type().(*types.Pointer).Elem())
		return Val{typ: x.Type(), ptr: &Ptr{kind: pGlobal, cell: key, typ: x.Type().(*types.Pointer).Elem()}}
	case *ssa.Function:
		return Val{typ: x.Type(), fn: x}
	case *ssa.Builtin:
		return Val{typ: x.Type()}
	}
	if r, ok := fr.vals[v]; ok {
		return r
	}
	panic(unsupportedf("use of untranslated value %s (%T) in %s", v.Name(), v, fr.fn.Name()))
}

func (fr *frame) constVal(c *ssa.Const) Val {
	u := fr.u
	t := c.Type()
	if c.Value == nil {
		// zero value / nil
		return Val{t: u.zero(t), typ: t, cst: c}
	}
	switch {
	case isBool(t):
		if constant.BoolVal(c.Value) {
			return Val{t: "true", typ: t, cst: c}
		}
		return Val{t: "false", typ: t, cst: c}
	case isString(t):
		return Val{t: u.strConst(constant.StringVal(c.Value)), typ: t, cst: c}
	}
	if ii, ok := basicIntInfo(t); ok {
		b, ok := constToBig(c.Value)
		if !ok {
			panic(unsupportedf("integer constant %s", c))
		}
		return Val{t: u.mode.intLit(b, ii), typ: t, cst: c}
	}
	if fb, ok := isFloat(t); ok {
		return Val{t: u.floatConst(c.Value, fb), typ: t, cst: c}
	}
	panic(unsupportedf("constant %s of type %s", c, t))
}

func (u *Unit) floatConst(c constant.Value, bits int) string {
	if u.mode.FPOrder {
		// exact rational of the rounded literal
		var f float64
		if bits == 32 {
			f32, _ := constant.Float32Val(c)
			f = float64(f32)
		} else {
			f, _ = constant.Float64Val(c)
		}
		return ratLit(f)
	}
	s, ok := u.mode.floatLit(c, bits)
	if !ok {
		panic(unsupportedf("float constant %s", c))
	}
	return s
}

func (u *Unit) strConst(s string) string {
	key := "strlit:" + s
	if u.declared[key] {
		return u.keySort[key]
	}
	u.declared[key] = true
	n := u.declConst("strlit", "Str")
	u.keySort[key] = n
	if u.strLits == nil {
		u.strLits = map[string]string{}
	}
	u.strLits[n] = s
	u.assert(fmt.Sprintf("(= (S_len %s) %s)", n, u.mode.idxLit(int64(len(s)))))
	if len(s) <= 48 {
		for i := 0; i < len(s); i++ {
			u.assert(fmt.Sprintf("(= (select (S_arr %s) %s) %s)", n, u.mode.idxLit(int64(i)), u.mode.intLit(bigInt(int64(s[i])), intInfo{8, false})))
		}
	}
	return n
}

// loopFrameObligations: the implicit frame invariant of a loop (objects that existed when the
// function was entered and are not named by its modifies clause are unchanged) is checked on
// loop entry and on every back edge for the keys the loop modifies.
func (fr *frame) loopFrameObligations(li *loopInfo) {
	u := fr.u
	if !u.frameInv || li.hav == nil || li.hav.all {
		return
	}
	for _, k := range sortedKeys(li.hav.frameKeys) {
		if !li.hav.modified[k] {
			continue
		}
		goal := func(st *state) string { return u.frameFact(k, st.get(u, k)) }
		u.addObl(fmt.Sprintf("loop%d.frame.init", li.ord), "implicit frame invariant of the loop holds on entry: "+k, fr.pos(firstPos(li.header)), li.entryCur, goal(li.entry))
		var gs []string
		for _, be := range li.backs {
			gs = append(gs, "(=> "+be.cond+" "+goal(be.st)+")")
		}
		u.addObl(fmt.Sprintf("loop%d.frame.pres", li.ord), "implicit frame invariant of the loop is preserved: "+k, fr.pos(firstPos(li.header)), "true", "(and true "+strings.Join(gs, " ")+")")
	}
}

func splitConj(x Expr) []Expr {
	if b, ok := x.(*EBinary); ok && b.Op == "&&" {
		return append(splitConj(b.X), splitConj(b.Y)...)
	}
	return []Expr{x}
}

// isQuantConj: a (guarded) bounded universal, fully represented by its recorded instances
func isQuantConj(x Expr) bool {
	switch n := x.(type) {
	case *EBinary:
		if n.Op == "==>" {
			return isQuantConj(n.Y)
		}
	case *EQuant:
		return n.Forall
	}
	return false
}
