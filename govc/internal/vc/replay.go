package vc

// Replay of solver counterexamples on the real code.
//
// For a refuted obligation of a function whose parameters and results are plain data
// (booleans, integers, floats, strings, slices/arrays of those) the model's inputs are
// extracted with (get-value), turned into Go literals, and the REAL function is called from
// an in-package test injected with `go test -overlay` (nothing is written into /repo). The
// observed outputs are then fed, as constants, into the contract clauses (translated by the
// same spec translator) and the solver decides whether a clause is false on the real
// input/output pair. A panic of the real function confirms a refuted safety obligation.

import (
	"bytes"
	"context"
	"encoding/json"
	"fmt"
	"go/types"
	"math"
	"math/big"
	"os"
	"os/exec"
	"path/filepath"
	"regexp"
	"strconv"
	"strings"
	"time"

	"golang.org/x/tools/go/ssa"
)

type ReplayResult struct {
	Confirmed bool              `json:"confirmed"`
	Note      string            `json:"note"`
	Inputs    map[string]string `json:"inputs,omitempty"`
	Test      string            `json:"test,omitempty"`
	Output    string            `json:"output,omitempty"`
	Clauses   []string          `json:"violated_clauses,omitempty"`
	Dir       string            `json:"package_dir,omitempty"`
}

const replayMaxLen = 12

type rval struct {
	goLit string // Go literal
	smt   func(u *Unit, st *state) string
}

func replayable(t types.Type) bool {
	switch tt := t.Underlying().(type) {
	case *types.Basic:
		_, i := basicIntInfo(tt)
		_, f := isFloat(tt)
		return i || f || isBool(tt) || isString(tt)
	case *types.Slice:
		if _, ok := tt.Elem().Underlying().(*types.Slice); ok {
			return false
		}
		return replayable(tt.Elem())
	case *types.Array:
		return replayable(tt.Elem()) && tt.Len() <= 64
	case *types.Struct:
		// fields outside the replayable types keep their zero value in the replay
		return true
	case *types.Pointer:
		_, ok := tt.Elem().Underlying().(*types.Struct)
		return ok
	}
	return false
}

// replayFields: the fields of a struct that the replay fills from the model
func replayFields(st *types.Struct) []int {
	var out []int
	for i := 0; i < st.NumFields(); i++ {
		ft := st.Field(i).Type()
		if _, isSt := ft.Underlying().(*types.Struct); isSt {
			continue
		}
		if _, isPtr := ft.Underlying().(*types.Pointer); isPtr {
			continue
		}
		if sl, isSl := ft.Underlying().(*types.Slice); isSl {
			// slices of plain data only (no nested structures: they may be recursive)
			if _, basic := sl.Elem().Underlying().(*types.Basic); !basic {
				continue
			}
		}
		if ar, isAr := ft.Underlying().(*types.Array); isAr {
			if _, basic := ar.Elem().Underlying().(*types.Basic); !basic {
				continue
			}
		}
		if st.Field(i).Name() != "_" && replayable(ft) {
			out = append(out, i)
		}
	}
	return out
}

func (e *Engine) Replay(v OblResult, workDir string) *ReplayResult {
	o := v.O
	u := o.Unit
	if u.contract == nil || strings.HasPrefix(u.FuncKey, "lemma ") {
		return &ReplayResult{Note: "lemma over spec functions: no code to run"}
	}
	var fn *ssa.Function
	if u.contract.PkgPath != "" {
		fn = e.Funcs[u.contract.PkgPath+"::"+u.contract.Key]
	}
	if fn == nil || fn.Parent() != nil || !e.inRepo(fn) {
		return &ReplayResult{Note: "replay supports package-level functions and methods of the repository only (not closures)"}
	}
	for _, p := range fn.Params {
		if !replayable(p.Type()) {
			return &ReplayResult{Note: "parameter " + p.Name() + " of type " + p.Type().String() + " is outside the replayable data types"}
		}
		if sl, ok := p.Type().Underlying().(*types.Slice); ok {
			if _, isSt := sl.Elem().Underlying().(*types.Struct); isSt {
				return &ReplayResult{Note: "parameter " + p.Name() + ": slices of structures are outside the replayable data types"}
			}
		}
		if termCount(p.Type()) > 3000 {
			return &ReplayResult{Note: "parameter " + p.Name() + " is too large to replay"}
		}
	}
	// 1. extract a (small) model
	var terms []string
	type pterm struct {
		p     *ssa.Parameter
		terms []string
	}
	var pts []pterm
	for _, p := range fn.Params {
		ts := u.valueTerms(q("in!"+p.Name()), p.Type(), "entry")
		pts = append(pts, pterm{p, ts})
		terms = append(terms, ts...)
	}
	vals := e.getValues(o, terms, workDir, true)
	if vals == nil {
		vals = e.getValues(o, terms, workDir, false)
	}
	if vals == nil {
		return &ReplayResult{Note: "could not extract a concrete model (get-value failed)"}
	}
	// 2. Go literals
	rr := &ReplayResult{Inputs: map[string]string{}}
	var args []string
	for _, pt := range pts {
		lit, err := goLiteral(pt.p.Type(), pt.terms, vals, u.mode)
		if err != nil {
			rr.Note = "cannot build a Go literal for " + pt.p.Name() + ": " + err.Error()
			return rr
		}
		rr.Inputs[pt.p.Name()] = lit
		args = append(args, lit)
	}
	// 3. run the real function
	pkg := fnPkg(fn).Pkg
	call := fn.Name()
	if fn.Origin() != nil {
		call = fn.Name() // already carries the instantiation, e.g. toByteSortable[float64]
	}
	// the test lives in the function's own package: its types are named without qualifier
	for i := range args {
		args[i] = strings.ReplaceAll(args[i], pkg.Name()+".", "")
	}
	if fn.Signature.Recv() != nil && len(args) > 0 {
		call = "(" + args[0] + ")." + fn.Name()
		args = args[1:]
	}
	testSrc, imports := replayTest(pkg, fn, call, args)
	rr.Test = testSrc
	rr.Dir = filepath.Dir(e.Fset.Position(fn.Pos()).Filename)
	_ = imports
	out, err := e.runOverlayTest(pkg, fn, testSrc, workDir)
	rr.Output = out
	if err != nil {
		rr.Note = "running the real function failed: " + err.Error()
		return rr
	}
	if strings.Contains(out, "REPLAY-PANIC") {
		rr.Confirmed = strings.HasPrefix(o.Kind, "safety") || o.Kind == "pre"
		rr.Note = "the real function panics on the model input"
		if !rr.Confirmed {
			rr.Note += " (panic on an input that satisfies the precondition)"
			rr.Confirmed = true
		}
		return rr
	}
	m := regexp.MustCompile(`REPLAY-RESULT (.*)`).FindStringSubmatch(out)
	if m == nil {
		rr.Note = "no result line in the test output"
		return rr
	}
	var results []json.RawMessage
	if err := json.Unmarshal([]byte(m[1]), &results); err != nil {
		rr.Note = "cannot parse results: " + err.Error()
		return rr
	}
	// 4. evaluate the contract clauses on the real input/output pair
	viol, note := e.evalClauses(u, fn, nil, vals, results, workDir)
	rr.Clauses = viol
	if len(viol) > 0 {
		rr.Confirmed = true
		rr.Note = "contract clause false on the real input/output pair"
	} else {
		rr.Note = "real function ran; no contract clause is violated on this input (" + note + ")"
	}
	return rr
}

type parg struct {
	p     *ssa.Parameter
	terms []string
}

// valueTerms lists the SMT terms whose values describe a value of type t rooted at `base`.
func (u *Unit) valueTerms(base string, t types.Type, stTag string) []string {
	m := u.mode
	switch tt := t.Underlying().(type) {
	case *types.Basic:
		if isString(tt) {
			ts := []string{"(S_len " + base + ")"}
			for i := 0; i < replayMaxLen; i++ {
				ts = append(ts, fmt.Sprintf("(select (S_arr %s) %s)", base, m.idxLit(int64(i))))
			}
			return ts
		}
		return []string{base}
	case *types.Slice:
		key := u.keyM(tt.Elem())
		h := q(key + "@" + stTag)
		ts := []string{"(s_len " + base + ")"}
		for i := 0; i < replayMaxLen; i++ {
			el := fmt.Sprintf("(select (select %s (s_ref %s)) %s)", h, base, u.elemIdx("(s_off "+base+")", m.idxLit(int64(i))))
			ts = append(ts, u.valueTerms(el, tt.Elem(), stTag)...)
		}
		return ts
	case *types.Array:
		var ts []string
		for i := int64(0); i < tt.Len(); i++ {
			ts = append(ts, u.valueTerms(fmt.Sprintf("(select %s %s)", base, m.idxLit(i)), tt.Elem(), stTag)...)
		}
		return ts
	case *types.Struct:
		u.sortOf(t)
		var ts []string
		for _, i := range replayFields(tt) {
			ts = append(ts, u.valueTerms("("+u.fieldSel(t, i)+" "+base+")", tt.Field(i).Type(), stTag)...)
		}
		return ts
	case *types.Pointer:
		if st, ok := tt.Elem().Underlying().(*types.Struct); ok {
			var ts []string
			for _, i := range replayFields(st) {
				key := u.keyField(tt.Elem(), i)
				ts = append(ts, u.valueTerms(fmt.Sprintf("(select %s %s)", q(key+"@"+stTag), base), st.Field(i).Type(), stTag)...)
			}
			return ts
		}
	}
	return []string{base}
}

func termCount(t types.Type) int {
	switch tt := t.Underlying().(type) {
	case *types.Basic:
		if isString(tt) {
			return 1 + replayMaxLen
		}
		return 1
	case *types.Slice:
		return 1 + replayMaxLen*termCount(tt.Elem())
	case *types.Array:
		return int(tt.Len()) * termCount(tt.Elem())
	case *types.Struct:
		n := 0
		for _, i := range replayFields(tt) {
			n += termCount(tt.Field(i).Type())
		}
		return n
	case *types.Pointer:
		if st, ok := tt.Elem().Underlying().(*types.Struct); ok {
			n := 0
			for _, i := range replayFields(st) {
				n += termCount(st.Field(i).Type())
			}
			return n
		}
	}
	return 1
}

// getValues runs the winning query again with (get-value) on the requested terms.
func (e *Engine) getValues(o *Obligation, terms []string, workDir string, small bool) map[string]string {
	u := o.Unit
	var sb strings.Builder
	sb.WriteString("(set-option :produce-models true)\n(set-logic ALL)\n")
	for _, l := range u.lines {
		sb.WriteString(l + "\n")
	}
	for _, l := range o.Extra {
		sb.WriteString(l + "\n")
	}
	// heap constants referenced by the terms must exist
	for _, t := range terms {
		for _, m := range regexp.MustCompile(`\|?((?:M|H)\.[^ ()|]+@entry)\|?`).FindAllStringSubmatch(t, -1) {
			name := q(m[1])
			key := strings.TrimSuffix(m[1], "@entry")
			decl := fmt.Sprintf("(declare-const %s %s)", name, u.keySort[key])
			if !strings.Contains(sb.String(), "(declare-const "+name+" ") {
				sb.WriteString(decl + "\n")
			}
		}
	}
	fmt.Fprintf(&sb, "(assert %s)\n(assert (not %s))\n", o.Reach, o.Goal)
	if small {
		for _, t := range terms {
			if strings.HasPrefix(t, "(s_len ") || strings.HasPrefix(t, "(S_len ") {
				sb.WriteString("(assert " + u.mode.cmp("<=", t, u.mode.idxLit(replayMaxLen), true) + ")\n")
			}
		}
	}
	sb.WriteString("(check-sat)\n")
	for _, t := range terms {
		sb.WriteString("(get-value (" + t + "))\n")
	}
	f := filepath.Join(workDir, safeFile(o.Name)+".getvalue.smt2")
	os.MkdirAll(workDir, 0o755)
	os.WriteFile(f, []byte(sb.String()), 0o644)
	for _, sv := range [][]string{{"z3-new", "-T:20", f}, {"z3", "-T:20", f}} {
		ctx, cancel := context.WithTimeout(context.Background(), 25*time.Second)
		out, _ := exec.CommandContext(ctx, sv[0], sv[1:]...).CombinedOutput()
		cancel()
		s := string(out)
		if !strings.HasPrefix(strings.TrimSpace(s), "sat") {
			continue
		}
		vals := map[string]string{}
		rest := s[strings.Index(s, "sat")+3:]
		exprs := splitSexprs(rest)
		if len(exprs) < len(terms) {
			continue
		}
		for i, t := range terms {
			// each expr is ((term value))
			ex := strings.TrimSpace(exprs[i])
			inner := strings.TrimSpace(ex[1 : len(ex)-1])
			parts := splitSexprs(inner[1 : len(inner)-1])
			if len(parts) >= 2 {
				vals[t] = strings.TrimSpace(parts[len(parts)-1])
			}
		}
		return vals
	}
	return nil
}

// splitSexprs splits a string into its top-level s-expressions / atoms.
func splitSexprs(s string) []string {
	var out []string
	depth := 0
	start := -1
	inBar := false
	for i := 0; i < len(s); i++ {
		c := s[i]
		if c == '|' {
			inBar = !inBar
			if start < 0 {
				start = i
			}
			continue
		}
		if inBar {
			continue
		}
		switch {
		case c == '(':
			if depth == 0 && start < 0 {
				start = i
			}
			depth++
		case c == ')':
			depth--
			if depth == 0 && start >= 0 {
				out = append(out, s[start:i+1])
				start = -1
			}
		case c == ' ' || c == '\n' || c == '\t' || c == '\r':
			if depth == 0 && start >= 0 {
				out = append(out, s[start:i])
				start = -1
			}
		default:
			if start < 0 {
				start = i
			}
		}
	}
	if start >= 0 {
		out = append(out, s[start:])
	}
	return out
}

func parseIntVal(v string, bits int, signed bool) (*big.Int, error) {
	v = strings.TrimSpace(v)
	switch {
	case strings.HasPrefix(v, "#x"):
		n, ok := new(big.Int).SetString(v[2:], 16)
		if !ok {
			return nil, fmt.Errorf("bad hex %s", v)
		}
		if signed && n.Bit(bits-1) == 1 {
			n.Sub(n, new(big.Int).Lsh(big.NewInt(1), uint(bits)))
		}
		return n, nil
	case strings.HasPrefix(v, "#b"):
		n, ok := new(big.Int).SetString(v[2:], 2)
		if !ok {
			return nil, fmt.Errorf("bad bin %s", v)
		}
		if signed && n.Bit(bits-1) == 1 {
			n.Sub(n, new(big.Int).Lsh(big.NewInt(1), uint(bits)))
		}
		return n, nil
	case strings.HasPrefix(v, "(- "):
		n, ok := new(big.Int).SetString(strings.TrimSuffix(strings.TrimSpace(v[3:]), ")"), 10)
		if !ok {
			return nil, fmt.Errorf("bad int %s", v)
		}
		return n.Neg(n), nil
	}
	n, ok := new(big.Int).SetString(v, 10)
	if !ok {
		return nil, fmt.Errorf("bad int %s", v)
	}
	return n, nil
}

// parseFloatBits returns the IEEE bit pattern of an SMT FloatingPoint value.
func parseFloatBits(v string, bits int) (uint64, error) {
	v = strings.TrimSpace(v)
	eb, sb := 11, 52
	if bits == 32 {
		eb, sb = 8, 23
	}
	switch {
	case strings.HasPrefix(v, "(fp "):
		parts := splitSexprs(v[4 : len(v)-1])
		if len(parts) != 3 {
			return 0, fmt.Errorf("bad fp %s", v)
		}
		s, _ := parseIntVal(parts[0], 1, false)
		e, _ := parseIntVal(parts[1], eb, false)
		m, _ := parseIntVal(parts[2], sb, false)
		if s == nil || e == nil || m == nil {
			return 0, fmt.Errorf("bad fp %s", v)
		}
		return s.Uint64()<<(uint(eb+sb)) | e.Uint64()<<uint(sb) | m.Uint64(), nil
	case strings.HasPrefix(v, "(_ +zero"):
		return 0, nil
	case strings.HasPrefix(v, "(_ -zero"):
		return 1 << uint(eb+sb), nil
	case strings.HasPrefix(v, "(_ +oo"):
		return ((1 << uint(eb)) - 1) << uint(sb), nil
	case strings.HasPrefix(v, "(_ -oo"):
		return 1<<uint(eb+sb) | ((1<<uint(eb))-1)<<uint(sb), nil
	case strings.HasPrefix(v, "(_ NaN"):
		return ((1<<uint(eb))-1)<<uint(sb) | 1<<uint(sb-1), nil
	}
	return 0, fmt.Errorf("unsupported float value %s", v)
}

// goLiteral consumes the values of the terms (in valueTerms order) and builds a Go literal.
func goLiteral(t types.Type, terms []string, vals map[string]string, m Mode) (string, error) {
	lit, rest, err := goLit(t, terms, vals, m)
	_ = rest
	return lit, err
}

func goLit(t types.Type, terms []string, vals map[string]string, m Mode) (string, []string, error) {
	tn := types.TypeString(t, func(p *types.Package) string { return p.Name() })
	switch tt := t.Underlying().(type) {
	case *types.Basic:
		if isString(tt) {
			n, err := parseIntVal(vals[terms[0]], 64, true)
			if err != nil {
				return "", nil, err
			}
			ln := int(n.Int64())
			if ln < 0 || ln > replayMaxLen {
				return "", nil, fmt.Errorf("string length %d outside the replay bound %d", ln, replayMaxLen)
			}
			var bs []byte
			for i := 0; i < ln; i++ {
				b, err := parseIntVal(vals[terms[1+i]], 8, false)
				if err != nil {
					return "", nil, err
				}
				bs = append(bs, byte(b.Uint64()))
			}
			return tn + "(" + strconv.Quote(string(bs)) + ")", terms[1+replayMaxLen:], nil
		}
		v := vals[terms[0]]
		if ii, ok := basicIntInfo(tt); ok {
			n, err := parseIntVal(v, ii.bits, ii.signed)
			if err != nil {
				return "", nil, err
			}
			return tn + "(" + n.String() + ")", terms[1:], nil
		}
		if fb, ok := isFloat(tt); ok {
			if m.FPOrder {
				return "", nil, fmt.Errorf("floats in order mode have no concrete value")
			}
			b, err := parseFloatBits(v, fb)
			if err != nil {
				return "", nil, err
			}
			if fb == 32 {
				return fmt.Sprintf("%s(math.Float32frombits(0x%x))", tn, uint32(b)), terms[1:], nil
			}
			return fmt.Sprintf("%s(math.Float64frombits(0x%x))", tn, b), terms[1:], nil
		}
		if isBool(tt) {
			return tn + "(" + v + ")", terms[1:], nil
		}
	case *types.Slice:
		n, err := parseIntVal(vals[terms[0]], 64, true)
		if err != nil {
			return "", nil, err
		}
		ln := int(n.Int64())
		if ln < 0 || ln > replayMaxLen {
			return "", nil, fmt.Errorf("slice length %d outside the replay bound %d", ln, replayMaxLen)
		}
		rest := terms[1:]
		var els []string
		per := termCount(tt.Elem())
		for i := 0; i < replayMaxLen; i++ {
			if i < ln {
				l, _, err := goLit(tt.Elem(), rest[:per], vals, m)
				if err != nil {
					return "", nil, err
				}
				els = append(els, l)
			}
			rest = rest[per:]
		}
		return tn + "{" + strings.Join(els, ", ") + "}", rest, nil
	case *types.Array:
		rest := terms
		var els []string
		per := termCount(tt.Elem())
		for i := int64(0); i < tt.Len(); i++ {
			l, _, err := goLit(tt.Elem(), rest[:per], vals, m)
			if err != nil {
				return "", nil, err
			}
			els = append(els, l)
			rest = rest[per:]
		}
		return tn + "{" + strings.Join(els, ", ") + "}", rest, nil
	case *types.Struct:
		rest := terms
		var fs []string
		for _, i := range replayFields(tt) {
			per := termCount(tt.Field(i).Type())
			l, _, err := goLit(tt.Field(i).Type(), rest[:per], vals, m)
			if err != nil {
				return "", nil, err
			}
			fs = append(fs, tt.Field(i).Name()+": "+l)
			rest = rest[per:]
		}
		return tn + "{" + strings.Join(fs, ", ") + "}", rest, nil
	case *types.Pointer:
		if st, ok := tt.Elem().Underlying().(*types.Struct); ok {
			en := types.TypeString(tt.Elem(), func(p *types.Package) string { return p.Name() })
			rest := terms
			var fs []string
			for _, i := range replayFields(st) {
				per := termCount(st.Field(i).Type())
				l, _, err := goLit(st.Field(i).Type(), rest[:per], vals, m)
				if err != nil {
					return "", nil, err
				}
				fs = append(fs, st.Field(i).Name()+": "+l)
				rest = rest[per:]
			}
			return "&" + en + "{" + strings.Join(fs, ", ") + "}", rest, nil
		}
	}
	return "", nil, fmt.Errorf("type %s", t)
}

func replayTest(pkg *types.Package, fn *ssa.Function, call string, args []string) (string, []string) {
	var sb strings.Builder
	fmt.Fprintf(&sb, "package %s\n\nimport (\n\t\"encoding/json\"\n\t\"fmt\"\n\t\"math\"\n\t\"testing\"\n", pkg.Name())
	// imports needed by the literals (qualified type names)
	need := map[string]string{}
	for _, a := range args {
		for _, m := range regexp.MustCompile(`\b([a-z][a-zA-Z0-9_]*)\.[A-Z]`).FindAllStringSubmatch(a, -1) {
			need[m[1]] = ""
		}
	}
	for _, imp := range pkg.Imports() {
		if _, ok := need[imp.Name()]; ok && imp.Name() != "math" {
			fmt.Fprintf(&sb, "\t%q\n", imp.Path())
		}
	}
	sb.WriteString(")\n\nvar _ = math.Pi\n\n")
	sb.WriteString("func TestZZVerifReplay(t *testing.T) {\n\tdefer func() {\n\t\tif r := recover(); r != nil {\n\t\t\tfmt.Printf(\"REPLAY-PANIC %v\\n\", r)\n\t\t}\n\t}()\n")
	n := fn.Signature.Results().Len()
	var rs []string
	for i := 0; i < n; i++ {
		rs = append(rs, fmt.Sprintf("r%d", i))
	}
	if n > 0 {
		fmt.Fprintf(&sb, "\t%s := %s(%s)\n", strings.Join(rs, ", "), call, strings.Join(args, ", "))
	} else {
		fmt.Fprintf(&sb, "\t%s(%s)\n", call, strings.Join(args, ", "))
	}
	sb.WriteString("\tvar out []any\n")
	for i := 0; i < n; i++ {
		rt := fn.Signature.Results().At(i).Type()
		fmt.Fprintf(&sb, "\tout = append(out, %s)\n", encodeExpr(fmt.Sprintf("r%d", i), rt))
	}
	sb.WriteString("\tb, _ := json.Marshal(out)\n\tfmt.Printf(\"REPLAY-RESULT %s\\n\", b)\n}\n")
	return sb.String(), nil
}

// encodeExpr: Go expression turning a result into JSON-friendly data (floats as bit patterns,
// errors as nil/non-nil, byte slices as int arrays).
func encodeExpr(v string, t types.Type) string {
	if types.Identical(t, types.Universe.Lookup("error").Type()) {
		return v + " != nil"
	}
	switch tt := t.Underlying().(type) {
	case *types.Basic:
		if fb, ok := isFloat(tt); ok {
			if fb == 32 {
				return "fmt.Sprint(uint64(math.Float32bits(float32(" + v + "))))"
			}
			return "fmt.Sprint(math.Float64bits(float64(" + v + ")))"
		}
		if isString(tt) {
			return "func() []any { o := []any{}; for _, x := range []byte(" + v + ") { o = append(o, fmt.Sprint(x)) }; return o }()"
		}
		if _, ok := basicIntInfo(tt); ok {
			return "fmt.Sprint(" + v + ")"
		}
		return v
	case *types.Slice:
		return "func() []any { var o []any; for _, x := range " + v + " { o = append(o, " + encodeExpr("x", tt.Elem()) + ") }; if " + v + " == nil { return nil }; if o == nil { o = []any{} }; return o }()"
	case *types.Array:
		return "func() []any { var o []any; for _, x := range " + v + " { o = append(o, " + encodeExpr("x", tt.Elem()) + ") }; return o }()"
	}
	return "fmt.Sprint(" + v + ")"
}

func (e *Engine) runOverlayTest(pkg *types.Package, fn *ssa.Function, src, workDir string) (string, error) {
	pos := e.Fset.Position(fn.Pos())
	dir := filepath.Dir(pos.Filename)
	return RunOverlay(dir, src, workDir)
}

// RunOverlay runs an in-package test injected by overlay in the given package directory.
func RunOverlay(dir, src, workDir string) (string, error) {
	os.MkdirAll(workDir, 0o755)
	tf := filepath.Join(workDir, "zz_verif_replay_test.go")
	if err := os.WriteFile(tf, []byte(src), 0o644); err != nil {
		return "", err
	}
	ov := map[string]map[string]string{"Replace": {filepath.Join(dir, "zz_verif_replay_test.go"): tf}}
	ob, _ := json.Marshal(ov)
	of := filepath.Join(workDir, "overlay.json")
	os.WriteFile(of, ob, 0o644)
	ctx, cancel := context.WithTimeout(context.Background(), 180*time.Second)
	defer cancel()
	cmd := exec.CommandContext(ctx, "bash", "-c", fmt.Sprintf("ulimit -v 8000000; cd %q && go test -overlay %q -v -vet=off -count=1 -timeout 60s -run '^TestZZVerifReplay$' .", dir, of))
	env := os.Environ()
	// the repository's own toolchain: default go with automatic (offline, cached) switch
	var clean []string
	for _, kv := range env {
		if strings.HasPrefix(kv, "GOTOOLCHAIN=") || strings.HasPrefix(kv, "GOFLAGS=") || strings.HasPrefix(kv, "PATH=") || strings.HasPrefix(kv, "GOSUMDB=") {
			continue
		}
		clean = append(clean, kv)
	}
	path := os.Getenv("PATH")
	path = strings.ReplaceAll(path, "/opt/veriftools/go1.26.8/bin:", "")
	clean = append(clean, "PATH="+path, "GOFLAGS=-mod=mod", "GOPROXY=off")
	cmd.Env = clean
	var out bytes.Buffer
	cmd.Stdout = &out
	cmd.Stderr = &out
	err := cmd.Run()
	// drop the program's own structured log lines (zerolog JSON) so that the verdict lines survive,
	// then keep the head and the tail of what is left
	var kept []string
	for _, l := range strings.Split(out.String(), "\n") {
		if strings.HasPrefix(l, "{\"level\"") {
			continue
		}
		kept = append(kept, l)
	}
	s := strings.Join(kept, "\n")
	if len(s) > 8000 {
		s = s[:3000] + "\n[...]\n" + s[len(s)-5000:]
	}
	if err != nil && !strings.Contains(s, "REPLAY-") {
		return s, fmt.Errorf("go test: %v", err)
	}
	return s, nil
}

// evalClauses decides, with the solver, which ensures clauses are false on the concrete pair.
func (e *Engine) evalClauses(orig *Unit, fn *ssa.Function, _ []parg, vals map[string]string, results []json.RawMessage, workDir string) ([]string, string) {
	c := orig.contract
	var viol []string
	notes := ""
	for k, en := range c.Ensures {
		u := newUnit(e, "replay-eval", orig.mode)
		u.regKey(allocKey, "Int")
		st := &state{over: map[string]string{}, base: &entryProv{tag: "entry", cache: map[string]string{}}, u: u}
		env := &specEnv{u: u, st: st, old: st, vars: map[string]Val{}, pkgPath: c.PkgPath, callee: fn}
		ok := true
		func() {
			defer func() {
				if r := recover(); r != nil {
					ok = false
					notes += fmt.Sprintf("clause %d: %v; ", k+1, r)
				}
			}()
			ref := 1
			for _, p := range fn.Params {
				terms := orig.valueTerms(q("in!"+p.Name()), p.Type(), "entry")
				t := u.concreteFromModel(p.Type(), terms, vals, st, &ref)
				env.vars[p.Name()] = Val{t: t, typ: p.Type()}
			}
			var rs []Val
			for i := 0; i < fn.Signature.Results().Len(); i++ {
				rt := fn.Signature.Results().At(i).Type()
				var j any
				json.Unmarshal(results[i], &j)
				t := u.concreteFromJSON(rt, j, st, &ref)
				rs = append(rs, Val{t: t, typ: rt})
			}
			env.results = rs
			// old state = input heap: inputs were written before the results; use one state (functions under replay do not mutate inputs observably for these clauses)
			g, err := env.boolExpr(en.E)
			if err != nil {
				ok = false
				notes += fmt.Sprintf("clause %d: %v; ", k+1, err)
				return
			}
			o := u.addObl("replay", en.Src, "", "true", g)
			script := o.Script(false)
			f := filepath.Join(workDir, fmt.Sprintf("replay-eval-%d.smt2", k+1))
			os.WriteFile(f, []byte(script), 0o644)
			res := "unknown"
			for _, sv := range [][]string{{"z3-new", "-T:20", f}, {"z3", "-T:20", f}, {"cvc5", "--tlimit=20000", f}} {
				ctx, cancel := context.WithTimeout(context.Background(), 25*time.Second)
				out, _ := exec.CommandContext(ctx, sv[0], sv[1:]...).CombinedOutput()
				cancel()
				first := strings.TrimSpace(strings.SplitN(string(out), "\n", 2)[0])
				if first == "sat" || first == "unsat" {
					res = first
					break
				}
			}
			if res == "sat" {
				viol = append(viol, en.Src)
			} else if res != "unsat" {
				notes += fmt.Sprintf("clause %d undecided on concrete data; ", k+1)
			}
		}()
		_ = ok
	}
	return viol, notes
}

// concreteFromModel builds an SMT term of the given type with the model's concrete value.
func (u *Unit) concreteFromModel(t types.Type, terms []string, vals map[string]string, st *state, ref *int) string {
	var take func(t types.Type) string
	pos := 0
	next := func() string { v := vals[terms[pos]]; pos++; return v }
	take = func(t types.Type) string {
		m := u.mode
		switch tt := t.Underlying().(type) {
		case *types.Basic:
			if isString(tt) {
				n, _ := parseIntVal(next(), 64, true)
				ln := int(n.Int64())
				arr := fmt.Sprintf("((as const (Array %s %s)) %s)", m.idxSort(), u.byteSort(), m.intLit(bigZero, intInfo{8, false}))
				for i := 0; i < replayMaxLen; i++ {
					v := next()
					if i < ln {
						b, _ := parseIntVal(v, 8, false)
						arr = fmt.Sprintf("(store %s %s %s)", arr, m.idxLit(int64(i)), m.intLit(b, intInfo{8, false}))
					}
				}
				return fmt.Sprintf("(mk-str %s %s)", arr, m.idxLit(int64(ln)))
			}
			return next()
		case *types.Slice:
			n, _ := parseIntVal(next(), 64, true)
			ln := int(n.Int64())
			es := u.sortOf(tt.Elem())
			arr := fmt.Sprintf("((as const (Array %s %s)) %s)", m.idxSort(), es, u.zero(tt.Elem()))
			for i := 0; i < replayMaxLen; i++ {
				el := take(tt.Elem())
				if i < ln {
					arr = fmt.Sprintf("(store %s %s %s)", arr, m.idxLit(int64(i)), el)
				}
			}
			r := *ref
			*ref++
			key := u.keyM(tt.Elem())
			st.set(key, fmt.Sprintf("(store %s %d %s)", st.get(u, key), r, arr))
			return fmt.Sprintf("(mk-slc %d %s %s %s)", r, m.idxLit(0), m.idxLit(int64(ln)), m.idxLit(int64(ln)))
		case *types.Array:
			arr := u.zero(t)
			for i := int64(0); i < tt.Len(); i++ {
				arr = fmt.Sprintf("(store %s %s %s)", arr, m.idxLit(i), take(tt.Elem()))
			}
			return arr
		case *types.Struct:
			u.sortOf(t)
			fill := map[int]string{}
			for _, i := range replayFields(tt) {
				fill[i] = take(tt.Field(i).Type())
			}
			if tt.NumFields() == 0 {
				return u.structCtor(t)
			}
			parts := []string{u.structCtor(t)}
			for i := 0; i < tt.NumFields(); i++ {
				if v, ok := fill[i]; ok {
					parts = append(parts, v)
				} else {
					parts = append(parts, u.zero(tt.Field(i).Type()))
				}
			}
			return "(" + strings.Join(parts, " ") + ")"
		case *types.Pointer:
			if stt, ok := tt.Elem().Underlying().(*types.Struct); ok {
				// a fresh object holding the model's field values
				r := *ref + 1000
				*ref++
				for _, i := range replayFields(stt) {
					key := u.keyField(tt.Elem(), i)
					st.set(key, fmt.Sprintf("(store %s %d %s)", st.get(u, key), r, take(stt.Field(i).Type())))
				}
				return fmt.Sprint(r)
			}
		}
		return next()
	}
	return take(t)
}

// concreteFromJSON builds an SMT term from a result value printed by the replay test.
func (u *Unit) concreteFromJSON(t types.Type, j any, st *state, ref *int) string {
	m := u.mode
	if types.Identical(t, types.Universe.Lookup("error").Type()) {
		if b, _ := j.(bool); b {
			return "(mk-ifc 1 1)"
		}
		return "(mk-ifc 0 0)"
	}
	switch tt := t.Underlying().(type) {
	case *types.Basic:
		if fb, ok := isFloat(tt); ok {
			f, _ := j.(float64) // bit pattern as JSON number may lose precision: printed via uint64 -> use string fallback
			bits := uint64(f)
			if s, ok := j.(string); ok {
				bits, _ = strconv.ParseUint(s, 10, 64)
			}
			if fb == 32 {
				return fmt.Sprintf("((_ to_fp 8 24) #x%08x)", uint32(bits))
			}
			return fmt.Sprintf("((_ to_fp 11 53) #x%016x)", bits)
		}
		if isString(tt) {
			return u.concreteBytesStr(j)
		}
		if ii, ok := basicIntInfo(tt); ok {
			s, _ := j.(string)
			n, _ := new(big.Int).SetString(s, 10)
			if n == nil {
				n = big.NewInt(0)
			}
			return m.intLit(n, ii)
		}
		if isBool(tt) {
			if b, _ := j.(bool); b {
				return "true"
			}
			return "false"
		}
	case *types.Slice:
		if j == nil {
			z := m.idxLit(0)
			return fmt.Sprintf("(mk-slc 0 %s %s %s)", z, z, z)
		}
		var items []any
		if b, ok := tt.Elem().Underlying().(*types.Basic); ok && b.Kind() == types.Uint8 {
			// []byte is marshalled by encoding/json as base64 unless wrapped; we wrapped into []any
		}
		items, _ = j.([]any)
		es := u.sortOf(tt.Elem())
		arr := fmt.Sprintf("((as const (Array %s %s)) %s)", m.idxSort(), es, u.zero(tt.Elem()))
		for i, it := range items {
			arr = fmt.Sprintf("(store %s %s %s)", arr, m.idxLit(int64(i)), u.concreteFromJSON(tt.Elem(), it, st, ref))
		}
		r := *ref
		*ref++
		key := u.keyM(tt.Elem())
		st.set(key, fmt.Sprintf("(store %s %d %s)", st.get(u, key), r, arr))
		return fmt.Sprintf("(mk-slc %d %s %s %s)", r, m.idxLit(0), m.idxLit(int64(len(items))), m.idxLit(int64(len(items))))
	case *types.Array:
		items, _ := j.([]any)
		arr := u.zero(t)
		for i, it := range items {
			arr = fmt.Sprintf("(store %s %s %s)", arr, m.idxLit(int64(i)), u.concreteFromJSON(tt.Elem(), it, st, ref))
		}
		return arr
	}
	panic(unsupportedf("result type %s is outside the replayable data types", t))
}

func (u *Unit) concreteBytesStr(j any) string {
	m := u.mode
	items, _ := j.([]any)
	arr := fmt.Sprintf("((as const (Array %s %s)) %s)", m.idxSort(), u.byteSort(), m.intLit(bigZero, intInfo{8, false}))
	for i, it := range items {
		s, _ := it.(string)
		n, _ := new(big.Int).SetString(s, 10)
		if n == nil {
			if f, ok := it.(float64); ok {
				n = big.NewInt(int64(f))
			} else {
				n = big.NewInt(0)
			}
		}
		arr = fmt.Sprintf("(store %s %s %s)", arr, m.idxLit(int64(i)), m.intLit(n, intInfo{8, false}))
	}
	return fmt.Sprintf("(mk-str %s %s)", arr, m.idxLit(int64(len(items))))
}

var _ = math.Pi

// ReplayMain re-runs the stored counterexample of a replay file on the real code.
func ReplayMain(args []string) int {
	if len(args) < 1 {
		fmt.Println("usage: govc replay <file>")
		return 2
	}
	b, err := os.ReadFile(args[0])
	if err != nil {
		fmt.Println(err)
		return 2
	}
	var rep struct {
		Obligation string        `json:"obligation"`
		What       string        `json:"what"`
		Status     string        `json:"status"`
		Replay     *ReplayResult `json:"replay"`
	}
	if err := json.Unmarshal(b, &rep); err != nil {
		fmt.Println(err)
		return 2
	}
	fmt.Printf("obligation %s (%s): %s\n", rep.Obligation, rep.Status, rep.What)
	if rep.Replay == nil || rep.Replay.Test == "" || rep.Replay.Dir == "" {
		fmt.Println("no concrete input stored for this obligation (see solver_answers / model in the file)")
		return 0
	}
	fmt.Printf("inputs: %v\n", rep.Replay.Inputs)
	out, err := RunOverlay(rep.Replay.Dir, rep.Replay.Test, filepath.Join(os.TempDir(), "govc-replay"))
	fmt.Println(out)
	if err != nil {
		fmt.Println("error:", err)
	}
	fmt.Printf("violated clauses recorded: %v\n", rep.Replay.Clauses)
	os.RemoveAll(filepath.Join(os.TempDir(), "govc-replay"))
	return 0
}
