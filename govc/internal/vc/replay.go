package vc

// Replay of solver counterexamples on the real code (go test -overlay).

type ReplayResult struct {
	Confirmed bool   `json:"confirmed"`
	Note      string `json:"note"`
	Test      string `json:"test,omitempty"`
	Output    string `json:"output,omitempty"`
}

func (e *Engine) Replay(v OblResult, workDir string) *ReplayResult {
	return nil
}
