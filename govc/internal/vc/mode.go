package vc

// Arithmetic / float encoding modes and Go type -> SMT sort mapping.

import (
	"fmt"
	"go/constant"
	"go/types"
	"math/big"
	"strings"
)

type Mode struct {
	BV      bool // exact bit-vectors (wrap-around as in Go); otherwise mathematical Int + overflow obligations
	FPOrder bool // floats embedded into Real by a strictly monotone map (comparison-only code)
}

func (m Mode) String() string {
	s := "int"
	if m.BV {
		s = "bv"
	}
	if m.FPOrder {
		s += "+order"
	} else {
		s += "+fp"
	}
	return s
}

type intInfo struct {
	bits   int
	signed bool
}

func basicIntInfo(t types.Type) (intInfo, bool) {
	b, ok := t.Underlying().(*types.Basic)
	if !ok {
		return intInfo{}, false
	}
	switch b.Kind() {
	case types.Int, types.Int64, types.UntypedInt, types.UntypedRune:
		return intInfo{64, true}, true
	case types.Int8:
		return intInfo{8, true}, true
	case types.Int16:
		return intInfo{16, true}, true
	case types.Int32:
		return intInfo{32, true}, true
	case types.Uint, types.Uint64, types.Uintptr:
		return intInfo{64, false}, true
	case types.Uint8:
		return intInfo{8, false}, true
	case types.Uint16:
		return intInfo{16, false}, true
	case types.Uint32:
		return intInfo{32, false}, true
	}
	return intInfo{}, false
}

func isFloat(t types.Type) (int, bool) {
	b, ok := t.Underlying().(*types.Basic)
	if !ok {
		return 0, false
	}
	switch b.Kind() {
	case types.Float32:
		return 32, true
	case types.Float64, types.UntypedFloat:
		return 64, true
	}
	return 0, false
}

func isString(t types.Type) bool {
	b, ok := t.Underlying().(*types.Basic)
	return ok && (b.Kind() == types.String || b.Kind() == types.UntypedString)
}

func isBool(t types.Type) bool {
	b, ok := t.Underlying().(*types.Basic)
	return ok && (b.Kind() == types.Bool || b.Kind() == types.UntypedBool)
}

func (m Mode) idxSort() string {
	if m.BV {
		return "(_ BitVec 64)"
	}
	return "Int"
}

func (m Mode) intSort(ii intInfo) string {
	if m.BV {
		return fmt.Sprintf("(_ BitVec %d)", ii.bits)
	}
	return "Int"
}

func (m Mode) floatSort(bits int) string {
	if m.FPOrder {
		return "Real"
	}
	if bits == 32 {
		return "(_ FloatingPoint 8 24)"
	}
	return "(_ FloatingPoint 11 53)"
}

func (m Mode) intLit(v *big.Int, ii intInfo) string {
	if m.BV {
		mod := new(big.Int).Lsh(big.NewInt(1), uint(ii.bits))
		w := new(big.Int).Mod(v, mod)
		if w.Sign() < 0 {
			w.Add(w, mod)
		}
		return fmt.Sprintf("(_ bv%s %d)", w.String(), ii.bits)
	}
	if v.Sign() < 0 {
		return "(- " + new(big.Int).Neg(v).String() + ")"
	}
	return v.String()
}

func (m Mode) idxLit(n int64) string {
	return m.intLit(big.NewInt(n), intInfo{64, true})
}

func intRange(ii intInfo) (*big.Int, *big.Int) {
	if ii.signed {
		hi := new(big.Int).Lsh(big.NewInt(1), uint(ii.bits-1))
		lo := new(big.Int).Neg(hi)
		hi.Sub(hi, big.NewInt(1))
		return lo, hi
	}
	hi := new(big.Int).Lsh(big.NewInt(1), uint(ii.bits))
	hi.Sub(hi, big.NewInt(1))
	return big.NewInt(0), hi
}

// inRange: term is within the machine range of ii (int mode only; true in bv mode)
func (m Mode) inRange(t string, ii intInfo) string {
	if m.BV {
		return "true"
	}
	lo, hi := intRange(ii)
	return fmt.Sprintf("(and (<= %s %s) (<= %s %s))", m.intLit(lo, ii), t, t, m.intLit(hi, ii))
}

func (m Mode) cmp(op string, a, b string, signed bool) string {
	if op == "==" {
		return "(= " + a + " " + b + ")"
	}
	if op == "!=" {
		return "(not (= " + a + " " + b + "))"
	}
	if !m.BV {
		return "(" + op + " " + a + " " + b + ")"
	}
	var f string
	switch op {
	case "<":
		f = "bvult"
		if signed {
			f = "bvslt"
		}
	case "<=":
		f = "bvule"
		if signed {
			f = "bvsle"
		}
	case ">":
		f = "bvugt"
		if signed {
			f = "bvsgt"
		}
	case ">=":
		f = "bvuge"
		if signed {
			f = "bvsge"
		}
	}
	return "(" + f + " " + a + " " + b + ")"
}

// arith returns the term for a op b at integer type ii, and (int mode) whether the
// result may leave the machine range (caller emits an overflow obligation).
func (m Mode) arith(op string, a, b string, ii intInfo) (term string, mayOverflow bool, err error) {
	if m.BV {
		switch op {
		case "+":
			return "(bvadd " + a + " " + b + ")", false, nil
		case "-":
			return "(bvsub " + a + " " + b + ")", false, nil
		case "*":
			return "(bvmul " + a + " " + b + ")", false, nil
		case "/":
			if sh, ok := bvPow2(b); ok {
				// division by 2^k: a shift for non-negative dividends (cheaper to bit-blast)
				shl := fmt.Sprintf("(bvlshr %s (_ bv%d %d))", a, sh, ii.bits)
				if !ii.signed {
					return shl, false, nil
				}
				return fmt.Sprintf("(ite (bvsge %s (_ bv0 %d)) %s (bvsdiv %s %s))", a, ii.bits, shl, a, b), false, nil
			}
			if ii.signed {
				return "(bvsdiv " + a + " " + b + ")", false, nil
			}
			return "(bvudiv " + a + " " + b + ")", false, nil
		case "%":
			if sh, ok := bvPow2(b); ok {
				mask := fmt.Sprintf("(bvand %s (_ bv%s %d))", a, new(big.Int).Sub(new(big.Int).Lsh(big.NewInt(1), uint(sh)), big.NewInt(1)).String(), ii.bits)
				if !ii.signed {
					return mask, false, nil
				}
				return fmt.Sprintf("(ite (bvsge %s (_ bv0 %d)) %s (bvsrem %s %s))", a, ii.bits, mask, a, b), false, nil
			}
			if ii.signed {
				return "(bvsrem " + a + " " + b + ")", false, nil
			}
			return "(bvurem " + a + " " + b + ")", false, nil
		case "&":
			return "(bvand " + a + " " + b + ")", false, nil
		case "|":
			return "(bvor " + a + " " + b + ")", false, nil
		case "^":
			return "(bvxor " + a + " " + b + ")", false, nil
		case "&^":
			return "(bvand " + a + " (bvnot " + b + "))", false, nil
		case "<<":
			return "(bvshl " + a + " " + b + ")", false, nil
		case ">>":
			if ii.signed {
				return "(bvashr " + a + " " + b + ")", false, nil
			}
			return "(bvlshr " + a + " " + b + ")", false, nil
		}
		return "", false, fmt.Errorf("unsupported bv operator %s", op)
	}
	switch op {
	case "+", "-", "*":
		return "(" + op + " " + a + " " + b + ")", true, nil
	case "/":
		if ii.signed {
			return fmt.Sprintf("(ite (>= %s 0) (div %s %s) (- (div (- %s) %s)))", a, a, b, a, b), true, nil
		}
		return "(div " + a + " " + b + ")", false, nil
	case "%":
		if ii.signed {
			q := fmt.Sprintf("(ite (>= %s 0) (div %s %s) (- (div (- %s) %s)))", a, a, b, a, b)
			return fmt.Sprintf("(- %s (* %s %s))", a, b, q), false, nil
		}
		return "(mod " + a + " " + b + ")", false, nil
	}
	return "", false, fmt.Errorf("operator %s is not supported in int mode (use arith bv)", op)
}

// convertInt converts integer term t from type `from` to type `to`.
// In int mode the value is kept and needCheck tells the caller that a range check is
// required for the machine value to coincide with the mathematical one.
func (m Mode) convertInt(t string, from, to intInfo) (term string, needCheck bool) {
	if m.BV {
		switch {
		case to.bits == from.bits:
			return t, false
		case to.bits < from.bits:
			return fmt.Sprintf("((_ extract %d 0) %s)", to.bits-1, t), false
		default:
			if from.signed {
				return fmt.Sprintf("((_ sign_extend %d) %s)", to.bits-from.bits, t), false
			}
			return fmt.Sprintf("((_ zero_extend %d) %s)", to.bits-from.bits, t), false
		}
	}
	flo, fhi := intRange(from)
	tlo, thi := intRange(to)
	need := flo.Cmp(tlo) < 0 || fhi.Cmp(thi) > 0
	return t, need
}

func constToBig(c constant.Value) (*big.Int, bool) {
	if c == nil {
		return nil, false
	}
	c = constant.ToInt(c)
	if c.Kind() != constant.Int {
		return nil, false
	}
	if v, ok := constant.Int64Val(c); ok {
		return big.NewInt(v), true
	}
	b, ok := new(big.Int).SetString(c.ExactString(), 10)
	return b, ok
}

func (m Mode) floatLit(c constant.Value, bits int) (string, bool) {
	c = constant.ToFloat(c)
	if c.Kind() != constant.Float && c.Kind() != constant.Int {
		return "", false
	}
	num, _ := constToBig(constant.Num(c))
	den, _ := constToBig(constant.Denom(c))
	if num == nil || den == nil {
		return "", false
	}
	neg := num.Sign() < 0
	if neg {
		num = new(big.Int).Neg(num)
	}
	r := "(/ " + num.String() + ".0 " + den.String() + ".0)"
	if neg {
		r = "(- " + r + ")"
	}
	if m.FPOrder {
		return "(ford" + fmt.Sprint(bits) + "_of_real " + r + ")", true
	}
	if bits == 32 {
		return "((_ to_fp 8 24) RNE " + r + ")", true
	}
	return "((_ to_fp 11 53) RNE " + r + ")", true
}

// sanitize makes a string usable inside an SMT quoted symbol.
func sanitize(s string) string {
	r := strings.NewReplacer("|", "!", "\\", "/", " ", "_", "\t", "_", "\n", "_")
	return r.Replace(s)
}

func q(s string) string {
	simple := true
	for i := 0; i < len(s); i++ {
		c := s[i]
		if !(c == '_' || c == '.' || c == '$' || c == '@' || c == '!' || (c >= 'a' && c <= 'z') || (c >= 'A' && c <= 'Z') || (c >= '0' && c <= '9')) {
			simple = false
			break
		}
	}
	if simple && len(s) > 0 && !(s[0] >= '0' && s[0] <= '9') {
		return s
	}
	return "|" + sanitize(s) + "|"
}

// bvPow2 recognises a bit-vector literal (_ bvN W) with N = 2^k, k >= 1.
func bvPow2(lit string) (int, bool) {
	var n string
	var w int
	if _, err := fmt.Sscanf(lit, "(_ bv%s %d)", &n, &w); err != nil {
		return 0, false
	}
	v, ok := new(big.Int).SetString(n, 10)
	if !ok || v.Sign() <= 0 || v.BitLen() < 2 {
		return 0, false
	}
	if new(big.Int).And(v, new(big.Int).Sub(v, big.NewInt(1))).Sign() != 0 {
		return 0, false
	}
	return v.BitLen() - 1, true
}
