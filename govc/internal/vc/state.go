package vc

// Symbolic heap state: a map of overrides on top of a lazily instantiated provider.

import (
	"go/types"
	"fmt"
	"regexp"
	"strconv"
	"strings"
)

type provider interface {
	get(u *Unit, key string) string
}

type state struct {
	over map[string]string
	base provider
	ws   []map[string]bool // written-key sets to record into (block of each active frame)
	u    *Unit             // when set, large terms are named on write
}

func (s *state) clone() *state {
	n := &state{over: make(map[string]string, len(s.over)), base: s.base, ws: s.ws, u: s.u}
	for k, v := range s.over {
		n.over[k] = v
	}
	return n
}

func (s *state) get(u *Unit, key string) string {
	if t, ok := s.over[key]; ok {
		if t == "\x00havoc" {
			t = u.declConst("hv_"+key, u.keySort[key])
			u.heapTyping(key, t)
			s.over[key] = t
		}
		return t
	}
	return s.base.get(u, key)
}

// set overrides a whole key (wholesale write: no per-reference frame information)
func (s *state) name(key, term string) string {
	if s.u != nil && len(term) > 100 {
		if srt, ok := s.u.keySort[key]; ok {
			return s.u.define(key+"@v", srt, term)
		}
	}
	return term
}

func (s *state) set(key, term string) {
	term = s.name(key, term)
	s.over[key] = term
	for _, w := range s.ws {
		w[key] = true
		w["whole|"+key] = true
	}
}

// setAt overrides a key by a store at the given object reference(s)
func (s *state) setAt(key, term string, refs ...string) {
	term = s.name(key, term)
	s.over[key] = term
	for _, w := range s.ws {
		w[key] = true
		for _, r := range refs {
			w["ref|"+key+"|"+r] = true
		}
	}
}

func (s *state) markWritten(key string) {
	for _, w := range s.ws {
		w[key] = true
	}
}

// entry provider: K@tag constants
type entryProv struct {
	tag   string
	cache map[string]string
}

func (p *entryProv) get(u *Unit, key string) string {
	if t, ok := p.cache[key]; ok {
		return t
	}
	srt, ok := u.keySort[key]
	if !ok {
		panic(fmt.Sprintf("heap key %s has no registered sort", key))
	}
	n := q(key + "@" + p.tag)
	u.emit("(declare-const %s %s)", n, srt)
	if key == allocKey {
		u.assert("(>= " + n + " 0)")
	}
	if key != allocKey && p.tag == "entry" {
		u.heapTypingA(key, n, p.get(u, allocKey))
	} else {
		u.heapTyping(key, n)
	}
	if strings.HasPrefix(key, "CalledWith.") && p.tag == "entry" {
		// ghost set of first arguments a callback has been called with: empty at function entry
		ks := strings.TrimSuffix(strings.TrimPrefix(srt, "(Array "), " Bool)")
		u.assert(fmt.Sprintf("(forall ((x!c %s)) (! (not (select %s x!c)) :pattern ((select %s x!c))))", ks, n, n))
	}
	if strings.HasPrefix(key, "Res.") && p.tag == "entry" {
		u.assert("(= " + n + " (mk-ifc 0 0))")
	}
	if strings.HasPrefix(key, "Held.") && p.tag == "entry" {
		if u.entryHeldReady {
			u.entryHeldAssume(key, n)
		} else {
			u.pendingHeld = append(u.pendingHeld, key, n)
		}
	}
	p.cache[key] = n
	return n
}

// havoc provider for a loop header
type havocProv struct {
	tag       string
	cache     map[string]string
	prev      *state // merged state on loop entry
	finalized bool
	modified  map[string]bool
	all       bool // everything modified (unknown call in the loop)
	startN    int  // unit fresh-name counter when the loop was entered
	startLine int  // length of the unit's script when the loop was entered
	frameKeys map[string]bool
}

func (p *havocProv) get(u *Unit, key string) string {
	if t, ok := p.cache[key]; ok {
		return t
	}
	if p.finalized && (!p.all || threadLocalKey(key)) && !p.modified[key] {
		t := p.prev.get(u, key)
		p.cache[key] = t
		return t
	}
	srt, ok := u.keySort[key]
	if !ok {
		panic(fmt.Sprintf("heap key %s has no registered sort", key))
	}
	n := q(key + "@" + p.tag)
	u.emit("(declare-const %s %s)", n, srt)
	if key == allocKey {
		u.assert("(>= " + n + " " + p.prev.get(u, key) + ")")
	}
	p.cache[key] = n
	if key != allocKey {
		u.heapTypingA(key, n, p.get(u, allocKey))
	}
	if p.finalized {
		p.frameAxiom(u, key, n)
	}
	if u.frameInv && u.frameKeyOK(key) {
		// implicit frame invariant (checked in loopFrameObligations)
		if p.frameKeys == nil {
			p.frameKeys = map[string]bool{}
		}
		p.frameKeys[key] = true
		u.assert(u.frameFact(key, n))
	}
	return n
}

var bangNum = regexp.MustCompile(`!([0-9]+)`)

// frameAxiom: if the loop writes key only at loop-invariant references or at references
// allocated inside the loop, every other pre-existing object is unchanged.
func (p *havocProv) frameAxiom(u *Unit, key, hdr string) {
	if p.all || !p.modified[key] || p.modified["whole|"+key] || key == allocKey || !strings.HasPrefix(u.keySort[key], "(Array Int ") {
		return
	}
	var excl []string
	pre := "ref|" + key + "|"
	for _, k := range sortedKeys(p.modified) {
		if !strings.HasPrefix(k, pre) {
			continue
		}
		ref := k[len(pre):]
		if u.freshRefs[ref] {
			continue // allocated inside the loop (or before it: then also covered below)
		}
		inv := true
		for _, m := range bangNum.FindAllStringSubmatch(ref, -1) {
			n, _ := strconv.Atoi(m[1])
			if n > p.startN {
				inv = false
			}
		}
		if !inv {
			return
		}
		excl = append(excl, ref)
	}
	// fresh refs created before the loop are loop-invariant terms too: exclude them explicitly
	for _, k := range sortedKeys(p.modified) {
		if strings.HasPrefix(k, pre) {
			ref := k[len(pre):]
			if u.freshRefs[ref] {
				excl = append(excl, ref)
			}
		}
	}
	cond := "(<= r " + p.prev.get(u, allocKey) + ")"
	for _, e := range excl {
		cond += " (not (= r " + e + "))"
	}
	u.assert(fmt.Sprintf("(forall ((r Int)) (! (=> (and %s) (= (select %s r) (select %s r))) :pattern ((select %s r))))", cond, hdr, p.prev.get(u, key), hdr))
}

func (p *havocProv) finalize(u *Unit, modified map[string]bool, all bool) {
	p.modified = modified
	p.all = all
	p.finalized = true
	// what is emitted here are facts about the loop-header state that hold by construction (what
	// the body does not modify keeps its value): obligations generated inside the body, i.e.
	// before this point of the script, may use them
	n0 := len(u.lines)
	defer func() {
		if u.lateFrom == nil {
			u.lateFrom = map[int]int{}
		}
		for i := n0; i < len(u.lines); i++ {
			u.lateFrom[i] = p.startLine + 1 // usable by every obligation created after the loop was entered
		}
	}()
	for _, k := range sortedKeys(p.cache) {
		if all && !threadLocalKey(k) {
			continue
		}
		if !modified[k] {
			u.assert("(= " + p.cache[k] + " " + p.prev.get(u, k) + ")")
		} else {
			p.frameAxiom(u, k, p.cache[k])
		}
	}
}

// merge provider for control-flow joins
type mergeIn struct {
	cond string
	st   *state
}

type mergeProv struct {
	tag   string
	ins   []mergeIn
	cache map[string]string
}

func (p *mergeProv) get(u *Unit, key string) string {
	if t, ok := p.cache[key]; ok {
		return t
	}
	t := mergeTerms(u, key, p.tag, p.ins)
	p.cache[key] = t
	return t
}

func mergeTerms(u *Unit, key, tag string, ins []mergeIn) string {
	var ts []string
	same := true
	for i, in := range ins {
		t := in.st.get(u, key)
		ts = append(ts, t)
		if i > 0 && t != ts[0] {
			same = false
		}
	}
	if same {
		return ts[0]
	}
	term := ts[len(ts)-1]
	for i := len(ts) - 2; i >= 0; i-- {
		term = fmt.Sprintf("(ite %s %s %s)", ins[i].cond, ts[i], term)
	}
	return u.define(key+"@"+tag, u.keySort[key], term)
}

// mergeStates builds the state at a join from its incoming (condition, state) pairs.
func mergeStates(u *Unit, tag string, ins []mergeIn) *state {
	if len(ins) == 1 {
		return ins[0].st.clone()
	}
	// fast path: identical base => merge only overrides
	sameBase := true
	for _, in := range ins[1:] {
		if in.st.base != ins[0].st.base {
			sameBase = false
		}
	}
	if sameBase {
		st := &state{over: map[string]string{}, base: ins[0].st.base, u: u}
		keys := map[string]bool{}
		for _, in := range ins {
			for k := range in.st.over {
				keys[k] = true
			}
		}
		for _, k := range sortedKeys(keys) {
			st.over[k] = mergeTerms(u, k, tag, ins)
		}
		return st
	}
	mp := &mergeProv{tag: tag, ins: ins, cache: map[string]string{}}
	return &state{over: map[string]string{}, base: mp, u: u}
}

// entryHeldAssume: a function is entered holding exactly the locks its precondition names
func (u *Unit) entryHeldAssume(key, n string) {
	// objects that do not exist yet cannot be locked
	if u.entryState != nil {
		u.assert(fmt.Sprintf("(forall ((r Int)) (! (=> (> r %s) (= (select %s r) 0)) :pattern ((select %s r))))", u.entryState.get(u, allocKey), n, n))
	}
	cond := "true"
	for _, r := range u.entryHeld[key] {
		if strings.Contains(r, "q!") {
			// the precondition names locks of this class under a quantifier: nothing is assumed
			// about the class beyond what the precondition says
			return
		}
		cond += " (not (= r " + r + "))"
	}
	u.assert(fmt.Sprintf("(forall ((r Int)) (! (=> (and %s) (= (select %s r) 0)) :pattern ((select %s r))))", cond, n, n))
}

// threadLocalKey: ghost lock state, local cells and iteration ghosts cannot be changed by code
// the function calls without a contract (see havocAll)
func threadLocalKey(k string) bool {
	return immutableKeys[k] || strings.HasPrefix(k, "Held.") || strings.HasPrefix(k, "Blk.") || strings.HasPrefix(k, "cell.") || strings.HasPrefix(k, "iter.") ||
		strings.HasPrefix(k, "Calls.") || strings.HasPrefix(k, "Arg.") || strings.HasPrefix(k, "Res.") || strings.HasPrefix(k, "CalledWith.")
}

// frameKeyOK: keys subject to the function-level frame (object-indexed data heap keys not
// listed wholesale in the modifies clause)
func (u *Unit) frameKeyOK(key string) bool {
	if threadLocalKey(key) {
		return false
	}
	if key == allocKey || !strings.HasPrefix(u.keySort[key], "(Array Int ") {
		return false
	}
	return !u.allowedWhole[key]
}

// frameFact: objects existing at function entry, other than those named by modifies, have their entry value
func (u *Unit) frameFact(key, cur string) string {
	cond := "(<= r!f " + u.entryState.get(u, allocKey) + ")"
	for _, x := range u.allowedRefs[key] {
		cond += " (not (= r!f " + x + "))"
	}
	return fmt.Sprintf("(forall ((r!f Int)) (! (=> (and %s) (= (select %s r!f) (select %s r!f))) :pattern ((select %s r!f))))", cond, cur, u.entryState.get(u, key), cur)
}

// allocProv: heap after a call to an allocating contract callee: objects that existed before the
// call keep their state (unless overridden by the modifies clause), the state of objects
// allocated by the callee is constrained only by its postcondition.
type allocProv struct {
	tag      string
	prev     *state
	allocPre string
	cache    map[string]string
}

func (p *allocProv) get(u *Unit, key string) string {
	if t, ok := p.cache[key]; ok {
		return t
	}
	srt := u.keySort[key]
	if key == allocKey || threadLocalKey(key) || !strings.HasPrefix(srt, "(Array Int ") {
		t := p.prev.get(u, key)
		p.cache[key] = t
		return t
	}
	if u.pureDataKey(key) {
		// only plain data is stored under this key: what it holds at the addresses of the callee's
		// fresh objects is as unconstrained before the call as after it, so the same term serves
		t := p.prev.get(u, key)
		p.cache[key] = t
		return t
	}
	n := q(key + "@" + p.tag)
	u.emit("(declare-const %s %s)", n, srt)
	old := p.prev.get(u, key)
	u.assert(fmt.Sprintf("(forall ((r Int)) (! (=> (<= r %s) (= (select %s r) (select %s r))) :pattern ((select %s r))))", p.allocPre, n, old, n))
	p.cache[key] = n
	return n
}

// hvProv: state after code without a contract: the data heap is unconstrained, the thread-local
// ghost state (locks held, call records, local cells) is the one before
type hvProv struct {
	prev  *state
	inner *entryProv
}

func (p *hvProv) get(u *Unit, key string) string {
	if threadLocalKey(key) {
		return p.prev.get(u, key)
	}
	return p.inner.get(u, key)
}

// pureDataKey: the values stored under the key contain no references (integers, booleans,
// floats, strings, structs of those; set-membership ghosts)
func (u *Unit) pureDataKey(key string) bool {
	if strings.HasPrefix(key, "MapDom.") || key == "MapLen" || strings.HasPrefix(key, "Ghost.") {
		return true
	}
	et, ok := u.keyElem[key]
	if !ok {
		return false
	}
	return noRefs(et, 0)
}

func noRefs(t types.Type, depth int) bool {
	if depth > 4 {
		return false
	}
	switch tt := t.Underlying().(type) {
	case *types.Basic:
		return tt.Kind() != types.UnsafePointer
	case *types.Struct:
		for i := 0; i < tt.NumFields(); i++ {
			if !noRefs(tt.Field(i).Type(), depth+1) {
				return false
			}
		}
		return true
	case *types.Array:
		return noRefs(tt.Elem(), depth+1)
	}
	return false
}
