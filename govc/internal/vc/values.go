package vc

// Translator-level values and pointers.

import (
	"fmt"
	"go/types"
	"math/big"
	"strings"

	"golang.org/x/tools/go/ssa"
)

var bigZero = big.NewInt(0)

type ptrKind int

const (
	pLocal      ptrKind = iota // local cell in the state (key cell)
	pHeapStruct                // ref into per-field heap arrays
	pSliceElem                 // (ref, absolute index) into M.<elem>
	pHeapCell                  // ref into C.<type>
	pGlobal                    // package-level variable (key cell)
	pArray                     // ref of an array object living in M.<elem> (pointer to the whole array)
)

type pathEl struct {
	field int        // >=0: struct field index of owner
	owner types.Type // struct type (for field) or array type (for idx)
	idx   string     // index term when field < 0
}

type Ptr struct {
	kind ptrKind
	cell string     // pLocal / pGlobal: state key
	ref  string     // SMT ref term
	typ  types.Type // type of the base object: cell type, struct type, element type (pSliceElem/pArray: elem)
	idx  string     // pSliceElem
	n    int64      // pArray: array length
	path []pathEl
}

type Val struct {
	t     string // SMT term ("" if not materialised)
	typ   types.Type
	ptr   *Ptr
	tup   []Val
	dyn   types.Type    // interface with statically known dynamic type
	dynV  *Val          // its concrete value
	fn    *ssa.Function // static function value
	binds []Val         // closure bindings
	cst   *ssa.Const
	lit   *big.Int // spec-level literal (bound variable of an expanded quantifier)
}

func (p *Ptr) extend(el pathEl) *Ptr {
	n := *p
	n.path = append(append([]pathEl{}, p.path...), el)
	return &n
}

// pointee type after following the path
func (p *Ptr) targetType() types.Type {
	var t types.Type
	switch p.kind {
	case pArray:
		t = types.NewArray(p.typ, p.n)
	default:
		t = p.typ
	}
	for _, el := range p.path {
		if el.field >= 0 {
			t = t.Underlying().(*types.Struct).Field(el.field).Type()
		} else {
			t = t.Underlying().(*types.Array).Elem()
		}
	}
	return t
}

// project applies a path to a base value term
func (u *Unit) project(base string, baseT types.Type, path []pathEl) string {
	t := base
	ty := baseT
	for _, el := range path {
		if el.field >= 0 {
			u.sortOf(ty)
			t = "(" + u.fieldSel(ty, el.field) + " " + t + ")"
			ty = ty.Underlying().(*types.Struct).Field(el.field).Type()
		} else {
			t = "(select " + t + " " + el.idx + ")"
			ty = ty.Underlying().(*types.Array).Elem()
		}
	}
	return t
}

// update returns base with the location at path replaced by v
func (u *Unit) update(base string, baseT types.Type, path []pathEl, v string) string {
	if len(path) == 0 {
		return v
	}
	el := path[0]
	if el.field >= 0 {
		st := baseT.Underlying().(*types.Struct)
		u.sortOf(baseT)
		var fs []string
		for i := 0; i < st.NumFields(); i++ {
			cur := "(" + u.fieldSel(baseT, i) + " " + base + ")"
			if i == el.field {
				cur = u.update(cur, st.Field(i).Type(), path[1:], v)
			}
			fs = append(fs, cur)
		}
		return "(" + u.structCtor(baseT) + " " + strings.Join(fs, " ") + ")"
	}
	at := baseT.Underlying().(*types.Array)
	inner := u.update("(select "+base+" "+el.idx+")", at.Elem(), path[1:], v)
	return "(store " + base + " " + el.idx + " " + inner + ")"
}

func (u *Unit) loadPtr(p *Ptr, st *state) string {
	switch p.kind {
	case pLocal, pGlobal:
		return u.project(st.get(u, p.cell), p.typ, p.path)
	case pHeapCell:
		k := u.keyCell(p.typ)
		return u.project("(select "+st.get(u, k)+" "+p.ref+")", p.typ, p.path)
	case pSliceElem:
		k := u.keyM(p.typ)
		return u.project(fmt.Sprintf("(select (select %s %s) %s)", st.get(u, k), p.ref, p.idx), p.typ, p.path)
	case pArray:
		k := u.keyM(p.typ)
		arr := fmt.Sprintf("(select %s %s)", st.get(u, k), p.ref)
		return u.project(arr, types.NewArray(p.typ, p.n), p.path)
	case pHeapStruct:
		stt := p.typ.Underlying().(*types.Struct)
		if len(p.path) == 0 {
			u.sortOf(p.typ)
			if stt.NumFields() == 0 {
				return u.structCtor(p.typ)
			}
			var fs []string
			for i := 0; i < stt.NumFields(); i++ {
				fs = append(fs, fmt.Sprintf("(select %s %s)", st.get(u, u.keyField(p.typ, i)), p.ref))
			}
			return "(" + u.structCtor(p.typ) + " " + strings.Join(fs, " ") + ")"
		}
		f := p.path[0].field
		base := fmt.Sprintf("(select %s %s)", st.get(u, u.keyField(p.typ, f)), p.ref)
		return u.project(base, stt.Field(f).Type(), p.path[1:])
	}
	panic("bad ptr kind")
}

func (u *Unit) storePtr(p *Ptr, st *state, v string) {
	switch p.kind {
	case pLocal, pGlobal:
		st.set(p.cell, u.update(st.get(u, p.cell), p.typ, p.path, v))
	case pHeapCell:
		k := u.keyCell(p.typ)
		h := st.get(u, k)
		nv := u.update("(select "+h+" "+p.ref+")", p.typ, p.path, v)
		st.setAt(k, fmt.Sprintf("(store %s %s %s)", h, p.ref, nv), p.ref)
	case pSliceElem:
		k := u.keyM(p.typ)
		h := st.get(u, k)
		nv := u.update(fmt.Sprintf("(select (select %s %s) %s)", h, p.ref, p.idx), p.typ, p.path, v)
		st.setAt(k, fmt.Sprintf("(store %s %s (store (select %s %s) %s %s))", h, p.ref, h, p.ref, p.idx, nv), p.ref)
	case pArray:
		k := u.keyM(p.typ)
		h := st.get(u, k)
		nv := u.update(fmt.Sprintf("(select %s %s)", h, p.ref), types.NewArray(p.typ, p.n), p.path, v)
		st.setAt(k, fmt.Sprintf("(store %s %s %s)", h, p.ref, nv), p.ref)
	case pHeapStruct:
		stt := p.typ.Underlying().(*types.Struct)
		if len(p.path) == 0 {
			u.sortOf(p.typ)
			for i := 0; i < stt.NumFields(); i++ {
				k := u.keyField(p.typ, i)
				st.setAt(k, fmt.Sprintf("(store %s %s (%s %s))", st.get(u, k), p.ref, u.fieldSel(p.typ, i), v), p.ref)
			}
			return
		}
		f := p.path[0].field
		k := u.keyField(p.typ, f)
		h := st.get(u, k)
		nv := u.update(fmt.Sprintf("(select %s %s)", h, p.ref), stt.Field(f).Type(), p.path[1:], v)
		st.setAt(k, fmt.Sprintf("(store %s %s %s)", h, p.ref, nv), p.ref)
	default:
		panic("bad ptr kind")
	}
}

// ptrFromRef builds the translator-level pointer for an SMT ref term of pointer type *T.
func (u *Unit) ptrFromRef(ref string, pointee types.Type) *Ptr {
	switch tt := pointee.Underlying().(type) {
	case *types.Struct:
		return &Ptr{kind: pHeapStruct, ref: ref, typ: pointee}
	case *types.Array:
		return &Ptr{kind: pArray, ref: ref, typ: tt.Elem(), n: tt.Len()}
	}
	return &Ptr{kind: pHeapCell, ref: ref, typ: pointee}
}

// materialise a pointer as an SMT Ref term if possible
func (p *Ptr) refTerm() (string, bool) {
	switch p.kind {
	case pHeapStruct, pHeapCell, pArray:
		if len(p.path) == 0 {
			return p.ref, true
		}
	}
	return "", false
}
