package vc

import (
	"fmt"
	"io"
	"sort"
	"strings"
)

func (u *Unit) NoteList() []string { return sortedKeys(u.Notes) }

func hasProp(props []string, p string) bool {
	if p == "" {
		return true
	}
	for _, x := range props {
		if x == p {
			return true
		}
	}
	return false
}

// Units generates the verification units (functions under contract and lemmas) of a property.
func (e *Engine) Units(prop, filter string) []*Unit {
	var us []*Unit
	bound, unbound := e.Bind()
	for _, c := range unbound {
		if hasProp(c.Props, prop) && strings.Contains(c.Key, filter) {
			u := newUnit(e, c.PkgPath+"."+c.Key, Mode{})
			u.FuncKey = c.Key
			u.contract = c
			u.Undecided = append(u.Undecided, fmt.Sprintf("binding: contract %s (%s:%d) binds to no function in the current tree", c.Key, c.File, c.Line))
			us = append(us, u)
		}
	}
	for _, b := range bound {
		if !hasProp(b.C.Props, prop) || len(b.C.Props) == 0 {
			continue
		}
		if !strings.Contains(b.C.Key, filter) {
			continue
		}
		us = append(us, e.VerifyFunc(b))
	}
	for _, lm := range e.CS.Lemmas {
		if !hasProp(lm.Props, prop) || !strings.Contains(lm.Name, filter) {
			continue
		}
		us = append(us, e.VerifyLemma(lm))
	}
	sort.SliceStable(us, func(i, j int) bool { return us[i].Name < us[j].Name })
	return us
}

func (e *Engine) DumpSSA(name string, w io.Writer) {
	var keys []string
	for k := range e.Funcs {
		if strings.HasSuffix(k, "::"+name) || strings.Contains(k, name) {
			keys = append(keys, k)
		}
	}
	sort.Strings(keys)
	seen := map[any]bool{}
	for _, k := range keys {
		fn := e.Funcs[k]
		if seen[fn] {
			continue
		}
		seen[fn] = true
		fmt.Fprintf(w, "== %s\n", k)
		fn.WriteTo(w)
	}
}

func CheckMain(args []string) int {
	fmt.Println("not implemented yet")
	return 2
}
