package vc

import (
	"regexp"
	"encoding/json"
	"flag"
	"fmt"
	"io"
	"os"
	"path/filepath"
	"sort"
	"strconv"
	"strings"
	"time"
)

func (u *Unit) NoteList() []string { return sortedKeys(u.Notes) }

func HasProp(props []string, p string) bool { return hasProp(props, p) }

func hasProp(props []string, p string) bool {
	if p == "" {
		return true
	}
	for _, x := range props {
		if x == p {
			return true
		}
	}
	return false
}

// Units generates the verification units (functions under contract and lemmas) of a property.
func (e *Engine) Units(prop, filter string) []*Unit {
	var us []*Unit
	bound, unbound := e.Bind()
	for _, c := range unbound {
		if hasProp(c.Props, prop) && strings.Contains(c.Key, filter) && len(c.Props) > 0 {
			u := newUnit(e, c.PkgPath+"."+c.Key, Mode{})
			u.FuncKey = c.Key
			u.contract = c
			u.Undecided = append(u.Undecided, fmt.Sprintf("binding: contract %s (%s:%d) binds to no function in the current tree", c.Key, c.File, c.Line))
			us = append(us, u)
		}
	}
	for _, b := range bound {
		if !hasProp(b.C.Props, prop) || len(b.C.Props) == 0 {
			continue
		}
		if !strings.Contains(b.C.Key, filter) {
			continue
		}
		us = append(us, e.VerifyFunc(b))
	}
	for _, lm := range e.CS.Lemmas {
		if !hasProp(lm.Props, prop) || !strings.Contains(lm.Name, filter) {
			continue
		}
		us = append(us, e.VerifyLemma(lm))
	}
	sort.SliceStable(us, func(i, j int) bool { return us[i].Name < us[j].Name })
	return us
}

func (e *Engine) DumpSSA(name string, w io.Writer) {
	var keys []string
	for k := range e.Funcs {
		if strings.HasSuffix(k, "::"+name) || strings.Contains(k, name) {
			keys = append(keys, k)
		}
	}
	sort.Strings(keys)
	seen := map[any]bool{}
	for _, k := range keys {
		fn := e.Funcs[k]
		if seen[fn] {
			continue
		}
		seen[fn] = true
		fmt.Fprintf(w, "== %s\n", k)
		fn.WriteTo(w)
	}
}

// ---------------------------------------------------------------- known findings

type knownFinding struct {
	Prop string
	Obl  string
	Text string
}

func loadKnownFindings(path string) (findings []knownFinding, fixed []string) {
	b, err := os.ReadFile(path)
	if err != nil {
		return nil, nil
	}
	for _, l := range strings.Split(string(b), "\n") {
		l = strings.TrimSpace(l)
		if strings.HasPrefix(l, "fixed:") {
			fixed = append(fixed, l)
			continue
		}
		if !strings.HasPrefix(l, "finding:") {
			continue
		}
		rest := strings.TrimSpace(l[len("finding:"):])
		kf := knownFinding{}
		for _, f := range strings.Fields(rest) {
			if strings.HasPrefix(f, "property=") {
				kf.Prop = f[len("property="):]
			} else if strings.HasPrefix(f, "obligation=") {
				kf.Obl = f[len("obligation="):]
			}
		}
		if i := strings.Index(rest, " -- "); i >= 0 {
			kf.Text = strings.TrimSpace(rest[i+4:])
		}
		findings = append(findings, kf)
	}
	return
}

// ---------------------------------------------------------------- check

type evidence struct {
	PropertyID  string         `json:"property_id"`
	Tier        string         `json:"tier"`
	Seed        int            `json:"seed"`
	Level       string         `json:"level"`
	Coverage    map[string]any `json:"coverage"`
	Assumptions []string       `json:"assumptions"`
	WallS       float64        `json:"wall_s"`
	Violations  int            `json:"violations"`
}

func CheckMain(args []string) int {
	fs := flag.NewFlagSet("check", flag.ExitOnError)
	prop := fs.String("property", "", "property id")
	tier := fs.String("tier", "quick", "quick|thorough")
	repo := fs.String("repo", "/repo", "repository")
	root := fs.String("root", "/verif", "verif root")
	fs.Parse(args)
	if t := os.Getenv("VERIF_TIER"); t == "quick" || t == "thorough" {
		*tier = t
	}
	seed, _ := strconv.Atoi(os.Getenv("VERIF_SEED"))
	if *tier == "thorough" {
		BlockCovers = true
	}
	t0 := time.Now()
	eng, err := Load(*repo, filepath.Join(*root, "extern"), []string{"./..."})
	if err != nil {
		fmt.Println("ENGINE-ERROR: cannot load the repository:", err)
		return 2
	}
	if len(eng.CS.Errors) > 0 {
		for _, e := range eng.CS.Errors {
			fmt.Println("CONTRACT-ERROR:", e)
		}
		return 2
	}
	units := eng.Units(*prop, "")
	var obls []*Obligation
	var undecided []string
	fuc := []string{}
	notes := map[string]bool{}
	for _, u := range units {
		for _, ud := range u.Undecided {
			undecided = append(undecided, u.Name+": "+ud)
		}
		for _, ud := range u.UndecidedGoals {
			undecided = append(undecided, u.Name+": "+ud)
		}
		// a unit that fell outside the subset midway keeps no obligations: its partial
		// encoding proves nothing
		if len(u.Undecided) > 0 {
			continue
		}
		for _, o := range u.Obls {
			if hasProp(o.Props, *prop) || o.Cover {
				obls = append(obls, o)
			}
		}
		fuc = append(fuc, u.Name)
		for n := range u.Notes {
			notes[n] = true
		}
	}
	secs := 10
	all := false
	if *tier == "thorough" {
		secs = 30
		all = true
	}
	work := filepath.Join(*root, "work", *prop)
	os.RemoveAll(work)
	res := SolveAll(obls, work, secs, all, 6)
	findings, _ := loadKnownFindings(filepath.Join(*root, "known_findings.txt"))
	nObl, nDis, nCover, nCoverUnknown := 0, 0, 0, 0
	bySolver := map[string]int{}
	var solverMs int64
	var samples []map[string]any
	var violations []OblResult
	var known []string
	var disagreements []string
	var deadReturns []string
	for _, r := range res {
		solverMs += r.Winner.Ms
		if r.O.Cover {
			nCover++
			if r.Status == "cover-unknown" {
				nCoverUnknown++
			}
			if r.Status == "cover-vacuous" && r.O.Advisory {
				deadReturns = append(deadReturns, r.O.Name+" ("+r.O.Pos+")")
			} else if r.Status == "cover-vacuous" {
				violations = append(violations, r)
			}
			continue
		}
		nObl++
		if all {
			sawSat, sawUnsat := false, false
			for _, a := range r.All {
				if a.Result == "sat" {
					sawSat = true
				}
				if a.Result == "unsat" {
					sawUnsat = true
				}
			}
			if sawSat && sawUnsat {
				disagreements = append(disagreements, r.O.Name)
			}
		}
		switch r.Status {
		case "discharged":
			nDis++
			bySolver[r.Winner.Solver]++
			if len(samples) < 6 && (r.O.Kind == "post" || r.O.Kind == "lemma" || strings.Contains(r.O.Kind, "inv")) {
				samples = append(samples, map[string]any{"obligation": r.O.Name, "kind": r.O.Kind, "what": r.O.Desc, "solver": r.Winner.Solver, "ms": r.Winner.Ms, "smt_bytes": r.Bytes, "assertions": r.Asserts})
			}
		default:
			matched := false
			for _, kf := range findings {
				if kf.Prop == *prop && kf.Obl == r.O.Name {
					matched = true
					nObl-- // a recorded finding is reported separately, not counted as a claimed obligation
					known = append(known, r.O.Name)
					fmt.Printf("KNOWN-FINDING: property=%s %s (%s) %s\n", *prop, r.O.Name, r.Status, kf.Text)
				}
			}
			if !matched {
				violations = append(violations, r)
			}
		}
	}
	if len(samples) == 0 {
		for _, r := range res {
			if r.Status == "discharged" && len(samples) < 4 {
				samples = append(samples, map[string]any{"obligation": r.O.Name, "kind": r.O.Kind, "what": r.O.Desc, "solver": r.Winner.Solver, "ms": r.Winner.Ms})
			}
		}
	}
	exit := 0
	for _, d := range disagreements {
		fmt.Printf("ENGINE-ERROR: solvers disagree on %s\n", d)
		exit = 2
	}
	for _, ud := range undecided {
		fmt.Printf("UNDECIDED %s\n", ud)
	}
	repDir := filepath.Join(*root, "replays", *prop)
	for _, v := range violations {
		os.MkdirAll(repDir, 0o755)
		rp := filepath.Join(repDir, safeFile(v.O.Name)+".json")
		rep := map[string]any{
			"property": *prop, "obligation": v.O.Name, "kind": v.O.Kind, "what": v.O.Desc, "at": v.O.Pos, "status": v.Status,
			"smt_file": v.File, "solver_answers": v.All, "model": v.Model,
		}
		confirmed := false
		if v.Status == "refuted" && v.Model != "" {
			if rr := eng.Replay(v, filepath.Join(*root, "work", *prop)); rr != nil {
				rep["replay"] = rr
				confirmed = rr.Confirmed
			}
		}
		b, _ := json.MarshalIndent(rep, "", " ")
		os.WriteFile(rp, b, 0o644)
		suffix := ""
		if !confirmed {
			suffix = " no-failing-input-found"
		}
		fmt.Printf("VIOLATION property=%s replay=%s obligation=%s status=%s%s\n", *prop, rp, v.O.Name, v.Status, suffix)
		exit = 1
	}
	// bounded stand-ins (thorough tier): executable differential checks of code outside the
	// verifier's reach, run on the real code through a test overlay; always labelled bounded
	var standins []map[string]any
	standinFailures := 0
	if *tier == "thorough" {
		files, _ := filepath.Glob(filepath.Join(*root, "standins", *prop, "*.go.txt"))
		sort.Strings(files)
		for _, f := range files {
			src, err := os.ReadFile(f)
			if err != nil {
				continue
			}
			meta := map[string]string{}
			for _, l := range strings.Split(string(src), "\n") {
				if m := regexp.MustCompile(`^// standin: (\w+)=(.*)$`).FindStringSubmatch(l); m != nil {
					meta[m[1]] = strings.TrimSpace(m[2])
				}
			}
			dir := filepath.Join(*repo, meta["dir"])
			out, rerr := RunOverlay(dir, string(src), filepath.Join(*root, "work", *prop, "standin"))
			ok := rerr == nil && strings.Contains(out, "REPLAY-STANDIN-OK")
			cases := ""
			if m := regexp.MustCompile(`REPLAY-STANDIN-OK cases=(\d+)`).FindStringSubmatch(out); m != nil {
				cases = m[1]
			}
			standins = append(standins, map[string]any{"name": meta["name"], "bound": meta["bound"], "cases": cases, "label": "bounded, not proved", "passed": ok, "file": f})
			if !ok {
				os.MkdirAll(repDir, 0o755)
				rp := filepath.Join(repDir, "standin-"+safeFile(filepath.Base(f))+".json")
				b, _ := json.MarshalIndent(map[string]any{"property": *prop, "standin": meta["name"], "bound": meta["bound"], "test_file": f, "output": out, "how_to_run": "the file is a Go test for directory " + meta["dir"] + " (go test -overlay, see DESIGN.md)"}, "", " ")
				os.WriteFile(rp, b, 0o644)
				fmt.Printf("VIOLATION property=%s replay=%s obligation=standin:%s status=bounded-check-failed\n", *prop, rp, strings.ReplaceAll(meta["name"], " ", "_"))
				exit = 1
				standinFailures++
			}
		}
	}
	// evidence
	trusted := []string{"go/packages + go/ssa lowering of the current /repo tree (build tag verif)", "SMT solvers z3 4.8.12, z3 5.1.0, cvc5 1.0.x", "govc VC generator (memory model and loop cutting of DESIGN.md §2)"}
	for _, t := range eng.CS.Trust {
		trusted = append(trusted, t)
	}
	var assumptions []string
	for _, n := range sortedKeys(notes) {
		assumptions = append(assumptions, n)
	}
	assumptions = append(assumptions, "slice/string lengths are below 2^40 (physical memory bound)", "goroutines, channels and scheduling are not modelled", "calls return (termination of callees is not verified)")
	level := "proof"
	if nObl == 0 || len(undecided) > 0 && nDis == 0 {
		level = "other"
	}
	cov := map[string]any{
		"obligations": nObl, "discharged": nDis,
		"checker_cmd":  fmt.Sprintf("govc check -property %s -tier %s (z3 4.8.12 | z3-new 5.1.0 | cvc5 raced, %d s per obligation)", *prop, *tier, secs),
		"trusted_base": trusted, "functions_under_contract": fuc, "by_solver": bySolver, "solver_time_s": float64(solverMs) / 1000,
		"vacuity_covers": nCover, "vacuity_covers_unknown": nCoverUnknown,
		"unreachable_return_points": deadReturns, "bounded_standins": standins,
		"samples": samples, "undecided": undecided, "known_findings": known, "exhaustive": false,
		"explanation": "every obligation generated from the SSA of the functions under contract was raced on three SMT solvers; unsat = discharged",
		"evaluations": nObl, "distinct_nontrivial": nDis,
	}
	ev := evidence{PropertyID: *prop, Tier: *tier, Seed: seed, Level: level, Coverage: cov, Assumptions: assumptions, WallS: time.Since(t0).Seconds(), Violations: len(violations)}
	os.MkdirAll(filepath.Join(*root, "evidence"), 0o755)
	b, _ := json.MarshalIndent(ev, "", " ")
	os.WriteFile(filepath.Join(*root, "evidence", *prop+".json"), b, 0o644)
	fmt.Printf("property %s tier %s: %d obligations, %d discharged, %d known findings, %d violations, %d undecided units, %d covers (%d unknown), %.1fs\n",
		*prop, *tier, nObl, nDis, len(known), len(violations)+standinFailures, len(undecided), nCover, nCoverUnknown, time.Since(t0).Seconds())
	if nObl == 0 && len(undecided) == 0 {
		fmt.Println("ENGINE-ERROR: no obligations generated for", *prop)
		if exit == 0 {
			exit = 2
		}
	}
	return exit
}
