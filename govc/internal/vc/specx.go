package vc

// Translation of spec expressions to SMT terms in a given environment.

import (
	"fmt"
	"sort"
	"go/constant"
	"go/token"
	"go/types"
	"math/big"
	"strings"

	"golang.org/x/tools/go/ssa"
)

type specEnv struct {
	u         *Unit
	fr        *frame
	at        *ssa.BasicBlock
	inclusive bool // name resolution may use bindings inside `at` itself (return points)
	phiSub    map[*ssa.Phi]Val
	st, old   *state
	vars      map[string]Val
	results   []Val
	resultSig *types.Signature
	callee    *ssa.Function
	pkgPath   string
	ghost     map[string]string // ghost maps of a contract (name -> SMT function symbol)
	entryHeld map[string][]string // when translating requires: locks stated to be held at entry
	freeCells map[string]*Ptr     // captured variables of a closure contract (name -> cell)
	freshBase string              // allocation counter against which fresh(x) is judged (default: function entry)
}

type sv struct {
	Val
	unk  bool     // stands for something the current body does not have (a call site that is gone): any comparison with it is undetermined
	lit  *big.Int // untyped integer literal
	flit string   // untyped float literal text
	isNil bool
}

func (fr *frame) specEnvAt(b *ssa.BasicBlock, st *state, phiSub map[*ssa.Phi]Val) *specEnv {
	pp := ""
	if fr.contract != nil {
		pp = fr.contract.PkgPath
	} else if p := fnPkg(fr.fn); p != nil {
		pp = p.Pkg.Path()
	}
	return &specEnv{u: fr.u, fr: fr, at: b, phiSub: phiSub, st: st, old: fr.entry, vars: map[string]Val{}, pkgPath: pp, callee: fr.fn}
}

func (e *specEnv) with(name string, v Val) *specEnv {
	n := *e
	n.vars = map[string]Val{}
	for k, x := range e.vars {
		n.vars[k] = x
	}
	n.vars[name] = v
	return &n
}

type specErr struct{ msg string }

func (e specErr) Error() string { return e.msg }

func sfail(f string, a ...any) { panic(specErr{fmt.Sprintf(f, a...)}) }

func (e *specEnv) boolExpr(x Expr) (t string, err error) {
	defer func() {
		if r := recover(); r != nil {
			switch rr := r.(type) {
			case specErr:
				err = fmt.Errorf("%s in %q", rr.msg, x.String())
			case unsupported:
				err = fmt.Errorf("%s in %q", rr.msg, x.String())
			default:
				panic(r)
			}
		}
	}()
	v := e.eval(x, types.Typ[types.Bool])
	if v.typ == nil || !isBool(v.typ) {
		sfail("expression is not boolean")
	}
	return v.t, nil
}

func (e *specEnv) anyExpr(x Expr, hint types.Type) (v sv, err error) {
	defer func() {
		if r := recover(); r != nil {
			switch rr := r.(type) {
			case specErr:
				err = fmt.Errorf("%s in %q", rr.msg, x.String())
			case unsupported:
				err = fmt.Errorf("%s in %q", rr.msg, x.String())
			default:
				panic(r)
			}
		}
	}()
	v = e.eval(x, hint)
	return
}

var tInt = types.Typ[types.Int]
var tBool = types.Typ[types.Bool]

func (e *specEnv) term(v sv, want types.Type) string {
	u := e.u
	if v.unk {
		// an undetermined value in a position where its sort is known
		if want == nil {
			sfail("the contract refers to a call the current body does not make")
		}
		return u.declConst("unk_val", u.sortOf(want))
	}
	if v.lit != nil {
		if want == nil {
			want = tInt
		}
		if ii, ok := basicIntInfo(want); ok {
			return u.mode.intLit(v.lit, ii)
		}
		if fb, ok := isFloat(want); ok {
			return u.floatConst(constant.MakeFromLiteral(v.lit.String(), token.INT, 0), fb)
		}
		sfail("integer literal used as %s", want)
	}
	if v.flit != "" {
		fb, ok := isFloat(orType(want, types.Typ[types.Float64]))
		if !ok {
			sfail("float literal used as %s", want)
		}
		return u.floatConst(constant.MakeFromLiteral(v.flit, token.FLOAT, 0), fb)
	}
	if v.isNil {
		if want == nil {
			sfail("untyped nil")
		}
		return u.zero(want)
	}
	if v.t != "" {
		return v.t
	}
	if v.ptr != nil {
		if r, ok := v.ptr.refTerm(); ok {
			return r
		}
	}
	sfail("value has no SMT term")
	return ""
}

func orType(a, b types.Type) types.Type {
	if a != nil {
		return a
	}
	return b
}

func (e *specEnv) eval(x Expr, hint types.Type) sv {
	u := e.u
	m := u.mode
	switch n := x.(type) {
	case *EBool:
		if n.Val {
			return sv{Val: Val{t: "true", typ: tBool}}
		}
		return sv{Val: Val{t: "false", typ: tBool}}
	case *EInt:
		b, ok := new(big.Int).SetString(n.Val, 0)
		if !ok {
			sfail("bad integer literal %s", n.Val)
		}
		return sv{lit: b}
	case *EFloat:
		return sv{flit: n.Val}
	case *EString:
		return sv{Val: Val{t: u.strConst(n.Val), typ: types.Typ[types.String]}}
	case *ENil:
		return sv{isNil: true}
	case *EIdent:
		v := e.lookup(n.Name)
		if v.lit != nil {
			return sv{lit: v.lit}
		}
		return sv{Val: v}
	case *EUnary:
		switch n.Op {
		case "!":
			v := e.eval(n.X, tBool)
			return sv{Val: Val{t: "(not " + e.term(v, tBool) + ")", typ: tBool}}
		case "-":
			v := e.eval(n.X, hint)
			if v.lit != nil {
				return sv{lit: new(big.Int).Neg(v.lit)}
			}
			if v.flit != "" {
				return sv{flit: "-" + v.flit}
			}
			if _, ok := basicIntInfo(v.typ); ok {
				if m.BV {
					return sv{Val: Val{t: "(bvneg " + v.t + ")", typ: v.typ}}
				}
				return sv{Val: Val{t: "(- " + v.t + ")", typ: v.typ}}
			}
			if _, ok := isFloat(v.typ); ok {
				if m.FPOrder {
					return sv{Val: Val{t: "(- " + v.t + ")", typ: v.typ}}
				}
				return sv{Val: Val{t: "(fp.neg " + v.t + ")", typ: v.typ}}
			}
		case "^":
			v := e.eval(n.X, hint)
			if _, ok := basicIntInfo(v.typ); ok && m.BV {
				return sv{Val: Val{t: "(bvnot " + v.t + ")", typ: v.typ}}
			}
		case "*":
			v := e.eval(n.X, nil)
			return sv{Val: e.deref(v)}
		case "&":
			// &x: the address of a local variable that lives in a cell (address taken in the code)
			id, ok := n.X.(*EIdent)
			if !ok || e.fr == nil {
				sfail("& is only supported on a local variable name inside a function contract")
			}
			var cell *ssa.Alloc
			cnt := 0
			for _, blk := range e.fr.fn.Blocks {
				for _, ins := range blk.Instrs {
					if a, ok := ins.(*ssa.Alloc); ok && a.Comment == id.Name {
						cell = a
						cnt++
					}
				}
			}
			if cnt != 1 {
				sfail("&%s: no unique addressable local of that name", id.Name)
			}
			if v, ok := e.fr.vals[cell]; ok {
				return sv{Val: Val{t: e.fr.term(v), typ: cell.Type()}}
			}
			sfail("&%s: the variable is not allocated yet at this point", id.Name)
		}
		sfail("unsupported unary %s", n.Op)
	case *EBinary:
		return e.binary(n, hint)
	case *EQuant:
		return e.quant(n)
	case *EIndex:
		return e.indexExpr(n)
	case *ESlice:
		return e.sliceExpr(n)
	case *EField:
		return e.fieldExpr(n)
	case *ECall:
		return e.callExpr(n, hint)
	}
	sfail("unsupported expression %T", x)
	return sv{}
}

func (e *specEnv) deref(v sv) Val {
	u := e.u
	if v.typ == nil {
		sfail("cannot dereference")
	}
	pt, ok := v.typ.Underlying().(*types.Pointer)
	if !ok {
		sfail("dereference of non-pointer %s", v.typ)
	}
	var p *Ptr
	if v.ptr != nil {
		p = v.ptr
	} else {
		p = u.ptrFromRef(v.t, pt.Elem())
	}
	return Val{t: u.loadPtr(p, e.st), typ: pt.Elem()}
}

func (e *specEnv) binary(n *EBinary, hint types.Type) sv {
	u := e.u
	m := u.mode
	switch n.Op {
	case "&&", "||", "==>", "<==>":
		a := e.term(e.eval(n.X, tBool), tBool)
		b := e.term(e.eval(n.Y, tBool), tBool)
		op := map[string]string{"&&": "and", "||": "or", "==>": "=>", "<==>": "="}[n.Op]
		return sv{Val: Val{t: "(" + op + " " + a + " " + b + ")", typ: tBool}}
	}
	isCmp := false
	switch n.Op {
	case "==", "!=", "<", "<=", ">", ">=":
		isCmp = true
	}
	opHint := hint
	if isCmp {
		opHint = nil
	}
	a := e.eval(n.X, opHint)
	if a.unk && isCmp {
		return sv{Val: Val{t: u.declConst("unk_cmp", "Bool"), typ: tBool}}
	}
	b := e.eval(n.Y, orType(a.typ, opHint))
	if b.unk && isCmp {
		return sv{Val: Val{t: u.declConst("unk_cmp", "Bool"), typ: tBool}}
	}
	if a.typ == nil && b.typ != nil {
		a = e.eval(n.X, b.typ)
	}
	// both literals: constant fold integers
	if a.lit != nil && b.lit != nil {
		r := new(big.Int)
		switch n.Op {
		case "+":
			return sv{lit: r.Add(a.lit, b.lit)}
		case "-":
			return sv{lit: r.Sub(a.lit, b.lit)}
		case "*":
			return sv{lit: r.Mul(a.lit, b.lit)}
		case "<<":
			return sv{lit: r.Lsh(a.lit, uint(b.lit.Int64()))}
		case "/":
			return sv{lit: r.Quo(a.lit, b.lit)}
		}
		if isCmp {
			c := a.lit.Cmp(b.lit)
			res := map[string]bool{"==": c == 0, "!=": c != 0, "<": c < 0, "<=": c <= 0, ">": c > 0, ">=": c >= 0}[n.Op]
			return sv{Val: Val{t: fmt.Sprint(res), typ: tBool}}
		}
	}
	ty := a.typ
	if ty == nil {
		ty = b.typ
	}
	if ty == nil {
		if a.isNil || b.isNil {
			sfail("comparison of untyped nil with a literal")
		}
		if a.flit != "" || b.flit != "" {
			ty = types.Typ[types.Float64]
		} else {
			ty = orType(hint, tInt)
			if isCmp {
				ty = tInt
			}
		}
	}
	// nil comparisons
	if (a.isNil || b.isNil) && isCmp {
		o := a
		if a.isNil {
			o = b
		}
		var eq string
		switch o.typ.Underlying().(type) {
		case *types.Interface:
			if o.dyn != nil {
				eq = "false"
			} else {
				eq = "(= (i_tag " + o.t + ") 0)"
			}
		case *types.Slice:
			eq = "(= (s_ref " + o.t + ") 0)"
		default:
			if o.ptr != nil && o.t == "" {
				if r, ok := o.ptr.refTerm(); ok {
					eq = "(= " + r + " 0)"
				} else {
					eq = "false"
				}
			} else {
				eq = "(= " + o.t + " 0)"
			}
		}
		if n.Op == "!=" {
			eq = "(not " + eq + ")"
		} else if n.Op != "==" {
			sfail("ordering comparison with nil")
		}
		return sv{Val: Val{t: eq, typ: tBool}}
	}
	// interface value compared with a concrete value (Go semantics: same dynamic type and equal value)
	if isCmp && (n.Op == "==" || n.Op == "!=") && a.typ != nil && b.typ != nil {
		_, ai := a.typ.Underlying().(*types.Interface)
		_, bi := b.typ.Underlying().(*types.Interface)
		if ai != bi {
			ifc, con := a, b
			if bi {
				ifc, con = b, a
			}
			ct := types.Default(con.typ)
			it := e.term(ifc, ifc.typ)
			ctm := e.term(con, ct)
			_, ubx := u.boxFns(ct, u.sortOf(ct))
			pay := "(" + ubx + " (i_pay " + it + "))"
			peq := "(= " + pay + " " + ctm + ")"
			if isString(ct) {
				peq = u.strEq(pay, ctm)
			}
			eq := fmt.Sprintf("(and (= (i_tag %s) %d) %s)", it, u.eng.typeID(ct), peq)
			if n.Op == "!=" {
				eq = "(not " + eq + ")"
			}
			return sv{Val: Val{t: eq, typ: tBool}}
		}
	}
	at, bt := e.term(a, ty), e.term(b, ty)
	if ii, ok := basicIntInfo(ty); ok {
		if isCmp {
			return sv{Val: Val{t: m.cmp(n.Op, at, bt, ii.signed), typ: tBool}}
		}
		if (n.Op == "<<" || n.Op == ">>") && !m.BV {
			if b.lit == nil {
				sfail("variable shift in int mode")
			}
			pw := new(big.Int).Lsh(big.NewInt(1), uint(b.lit.Int64())).String()
			if n.Op == "<<" {
				return sv{Val: Val{t: "(* " + at + " " + pw + ")", typ: ty}}
			}
			return sv{Val: Val{t: "(div " + at + " " + pw + ")", typ: ty}}
		}
		t, _, err := m.arith(n.Op, at, bt, ii)
		if err != nil {
			sfail("%v", err)
		}
		return sv{Val: Val{t: t, typ: ty}}
	}
	if fb, ok := isFloat(ty); ok {
		rt := ty
		if isCmp {
			rt = tBool
		}
		return sv{Val: Val{t: u.floatOp(n.Op, at, bt, fb, isCmp), typ: rt}}
	}
	if isCmp && (n.Op == "==" || n.Op == "!=") {
		eq := "(= " + at + " " + bt + ")"
		if isString(ty) {
			eq = u.strEq(at, bt)
		}
		if n.Op == "!=" {
			eq = "(not " + eq + ")"
		}
		return sv{Val: Val{t: eq, typ: tBool}}
	}
	if isString(ty) && n.Op == "+" {
		return sv{Val: Val{t: u.strConcat(at, bt), typ: ty}}
	}
	sfail("operator %s not supported on %s", n.Op, ty)
	return sv{}
}

func (e *specEnv) quant(n *EQuant) sv {
	u := e.u
	m := u.mode
	kw := "exists"
	if n.Forall {
		kw = "forall"
	}
	if n.Lo == nil {
		ty, err := e.resolveType(n.Type)
		if err != nil {
			sfail("%v", err)
		}
		name := q("q!" + n.Var)
		srt := u.sortOf(ty)
		inner := e.with(n.Var, Val{t: name, typ: ty})
		body := inner.term(inner.eval(n.Body, tBool), tBool)
		ti := u.typeInvariant(name, ty, 0)
		if ti != "" {
			if n.Forall {
				body = "(=> " + ti + " " + body + ")"
			} else {
				body = "(and " + ti + " " + body + ")"
			}
		}
		return sv{Val: Val{t: fmt.Sprintf("(%s ((%s %s)) %s)", kw, name, srt, body), typ: tBool}}
	}
	loV, hiV := e.eval(n.Lo, tInt), e.eval(n.Hi, tInt)
	if n.Sum {
		if loV.lit == nil || hiV.lit == nil || new(big.Int).Sub(hiV.lit, loV.lit).Cmp(big.NewInt(128)) > 0 {
			sfail("sum needs constant bounds (at most 128 terms)")
		}
		acc := ""
		var ty types.Type = tInt
		for k := new(big.Int).Set(loV.lit); k.Cmp(hiV.lit) < 0; k = new(big.Int).Add(k, big.NewInt(1)) {
			inner := e.with(n.Var, Val{typ: tInt, lit: new(big.Int).Set(k)})
			v := inner.eval(n.Body, tInt)
			if v.typ != nil {
				ty = v.typ
			}
			t := inner.term(v, ty)
			if acc == "" {
				acc = t
			} else {
				ii, _ := basicIntInfo(ty)
				acc, _, _ = u.mode.arith("+", acc, t, ii)
			}
		}
		if acc == "" {
			return sv{lit: big.NewInt(0)}
		}
		return sv{Val: Val{t: acc, typ: ty}}
	}
	if loV.lit != nil && hiV.lit != nil && new(big.Int).Sub(hiV.lit, loV.lit).Cmp(big.NewInt(64)) <= 0 {
		// constant bounds: expand
		var parts []string
		for k := new(big.Int).Set(loV.lit); k.Cmp(hiV.lit) < 0; k = new(big.Int).Add(k, big.NewInt(1)) {
			inner := e.with(n.Var, Val{typ: tInt, lit: new(big.Int).Set(k)})
			parts = append(parts, inner.term(inner.eval(n.Body, tBool), tBool))
		}
		if n.Forall {
			return sv{Val: Val{t: "(and true " + strings.Join(parts, " ") + ")", typ: tBool}}
		}
		return sv{Val: Val{t: "(or false " + strings.Join(parts, " ") + ")", typ: tBool}}
	}
	lo := e.term(loV, tInt)
	hi := e.term(hiV, tInt)
	u.nfresh++
	name := q(fmt.Sprintf("q!%s!%d", n.Var, u.nfresh))
	inner := e.with(n.Var, Val{t: name, typ: tInt})
	body := inner.term(inner.eval(n.Body, tBool), tBool)
	rng := "(and " + m.cmp("<=", lo, name, true) + " " + m.cmp("<", name, hi, true) + ")"
	if n.Forall {
		// hypotheses about ghost index maps fire only on applications of the map (avoids
		// matching loops such as perm(inv(perm(...))))
		var pats []string
		for _, g := range e.ghost {
			app := "(" + g + " " + name + ")"
			if strings.Contains(body, app) {
				pats = append(pats, ":pattern ("+app+")")
			}
		}
		if len(pats) > 0 {
			sort.Strings(pats)
			return sv{Val: Val{t: fmt.Sprintf("(forall ((%s %s)) (! (=> %s %s) %s))", name, m.idxSort(), rng, body, strings.Join(pats, " ")), typ: tBool}}
		}
		return sv{Val: Val{t: fmt.Sprintf("(forall ((%s %s)) (=> %s %s))", name, m.idxSort(), rng, body), typ: tBool}}
	}
	return sv{Val: Val{t: fmt.Sprintf("(exists ((%s %s)) (and %s %s))", name, m.idxSort(), rng, body), typ: tBool}}
}

func (e *specEnv) indexExpr(n *EIndex) sv {
	u := e.u
	x := e.eval(n.X, nil)
	if x.unk {
		return sv{unk: true}
	}
	if x.typ == nil {
		sfail("cannot index a literal")
	}
	switch tt := x.typ.Underlying().(type) {
	case *types.Slice:
		i := e.term(e.eval(n.I, tInt), tInt)
		k := u.keyM(tt.Elem())
		return sv{Val: Val{t: fmt.Sprintf("(select (select %s (s_ref %s)) %s)", e.st.get(u, k), x.t, u.elemIdx("(s_off "+x.t+")", i)), typ: tt.Elem()}}
	case *types.Array:
		i := e.term(e.eval(n.I, tInt), tInt)
		return sv{Val: Val{t: "(select " + x.t + " " + i + ")", typ: tt.Elem()}}
	case *types.Basic:
		if isString(tt) {
			i := e.term(e.eval(n.I, tInt), tInt)
			return sv{Val: Val{t: "(select (S_arr " + x.t + ") " + i + ")", typ: types.Typ[types.Uint8]}}
		}
	case *types.Map:
		k := e.term(e.eval(n.I, tt.Key()), tt.Key())
		e.noteKey(tt.Key(), k)
		return sv{Val: Val{t: fmt.Sprintf("(select (select %s %s) %s)", e.st.get(u, u.keyMapVal(tt)), x.t, k), typ: tt.Elem()}}
	case *types.Pointer:
		if at, ok := tt.Elem().Underlying().(*types.Array); ok {
			v := e.deref(x)
			i := e.term(e.eval(n.I, tInt), tInt)
			return sv{Val: Val{t: "(select " + v.t + " " + i + ")", typ: at.Elem()}}
		}
	}
	sfail("cannot index %s", x.typ)
	return sv{}
}

func (e *specEnv) sliceExpr(n *ESlice) sv {
	u := e.u
	m := u.mode
	x := e.eval(n.X, nil)
	if x.typ == nil {
		sfail("cannot slice a literal")
	}
	switch x.typ.Underlying().(type) {
	case *types.Slice:
		lo := m.idxLit(0)
		if n.Lo != nil {
			lo = e.term(e.eval(n.Lo, tInt), tInt)
		}
		hi := "(s_len " + x.t + ")"
		if n.Hi != nil {
			hi = e.term(e.eval(n.Hi, tInt), tInt)
		}
		return sv{Val: Val{t: fmt.Sprintf("(mk-slc (s_ref %s) %s %s %s)", x.t, u.idxAdd("(s_off "+x.t+")", lo), u.idxSub(hi, lo), u.idxSub("(s_cap "+x.t+")", lo)), typ: x.typ}}
	}
	sfail("cannot slice %s", x.typ)
	return sv{}
}

// qualified resolves pkg.Name where pkg is an import of the contract's package: constants become
// literals, package-level variables are read from the state
func (e *specEnv) qualified(n *EField) (sv, bool) {
	id, ok := n.X.(*EIdent)
	if !ok {
		return sv{}, false
	}
	if _, bound := e.vars[id.Name]; bound {
		return sv{}, false
	}
	u := e.u
	pk, ok := u.eng.PkgByPath[e.pkgPath]
	if !ok {
		return sv{}, false
	}
	for _, ip := range pk.Imports {
		if ip.Name != id.Name || ip.Types == nil {
			continue
		}
		obj := ip.Types.Scope().Lookup(n.Name)
		switch o := obj.(type) {
		case *types.Const:
			if b, ok := constToBig(o.Val()); ok {
				return sv{lit: b}, true
			}
			if o.Val().Kind() == constant.String {
				return sv{Val: Val{t: u.strConst(constant.StringVal(o.Val())), typ: types.Typ[types.String]}}, true
			}
		case *types.Var:
			key := u.keyGlobal(ip.Name+"."+o.Name(), o.Type())
			return sv{Val: Val{t: e.st.get(u, key), typ: o.Type()}}, true
		}
	}
	return sv{}, false
}

func (e *specEnv) fieldExpr(n *EField) sv {
	u := e.u
	if v, ok := e.qualified(n); ok {
		if e.fr != nil {
			if _, shadow := e.fr.lookupName(n.X.(*EIdent).Name, e.at, e.inclusive, e.phiSub, e.st); !shadow {
				return v
			}
		} else {
			return v
		}
	}
	x := e.eval(n.X, nil)
	if x.unk {
		return sv{unk: true}
	}
	if x.typ == nil {
		sfail("field of literal")
	}
	t := x.typ
	viaPtr := false
	if pt, ok := t.Underlying().(*types.Pointer); ok {
		t = pt.Elem()
		viaPtr = true
	}
	st, ok := t.Underlying().(*types.Struct)
	if !ok {
		sfail("%s has no fields", x.typ)
	}
	for i := 0; i < st.NumFields(); i++ {
		if st.Field(i).Name() != n.Name {
			continue
		}
		ft := st.Field(i).Type()
		if viaPtr {
			var p *Ptr
			if x.ptr != nil {
				p = x.ptr
			} else {
				p = u.ptrFromRef(x.t, t)
			}
			pp := p.extend(pathEl{field: i, owner: t})
			return sv{Val: Val{t: u.loadPtr(pp, e.st), typ: ft}}
		}
		u.sortOf(t)
		return sv{Val: Val{t: "(" + u.fieldSel(t, i) + " " + x.t + ")", typ: ft}}
	}
	sfail("type %s has no field %s", t, n.Name)
	return sv{}
}

// keysOfLValue maps a modifies expression to the heap keys it may change.
func (e *specEnv) keysOfLValue(x Expr) (keys []string, ok bool) {
	defer func() {
		if r := recover(); r != nil {
			if _, is := r.(specErr); is {
				ok = false
				return
			}
			if _, is := r.(unsupported); is {
				ok = false
				return
			}
			panic(r)
		}
	}()
	u := e.u
	// whole-value forms
	if v, err := e.anyExpr(x, nil); err == nil && v.typ != nil {
		switch tt := v.typ.Underlying().(type) {
		case *types.Map:
			return []string{u.keyMapDom(tt), u.keyMapVal(tt), u.keyMapLen()}, true
		case *types.Slice:
			if _, isIdx := x.(*EIndex); !isIdx {
				if _, isField := x.(*EField); !isField {
					return []string{u.keyM(tt.Elem())}, true
				}
			}
		}
	}
	// location forms
	if _, isIdx := x.(*EIndex); !isIdx {
		if p := e.lvalueSafe(x); p != nil {
			switch p.kind {
			case pHeapStruct:
				if len(p.path) > 0 && p.path[0].field >= 0 {
					return []string{u.keyField(p.typ, p.path[0].field)}, true
				}
			case pHeapCell:
				return []string{u.keyCell(p.typ)}, true
			case pLocal, pGlobal:
				return []string{p.cell}, true
			case pSliceElem, pArray:
				return []string{u.keyM(p.typ)}, true
			}
		}
	}
	if k, ok := e.keyOfLValue(x); ok {
		return []string{k}, true
	}
	return nil, false
}

// refOfLValue: the object reference whose state a modifies expression names (map, slice, *T, x.f)
func (e *specEnv) refOfLValue(x Expr) (ref string, ok bool) {
	defer func() {
		if r := recover(); r != nil {
			if _, is := r.(specErr); is {
				ok = false
				return
			}
			if _, is := r.(unsupported); is {
				ok = false
				return
			}
			panic(r)
		}
	}()
	if v, err := e.anyExpr(x, nil); err == nil && v.typ != nil {
		switch v.typ.Underlying().(type) {
		case *types.Map:
			return v.t, v.t != ""
		case *types.Slice:
			if _, isIdx := x.(*EIndex); !isIdx {
				if _, isField := x.(*EField); !isField {
					return "(s_ref " + v.t + ")", v.t != ""
				}
			}
		}
	}
	if _, isIdx := x.(*EIndex); isIdx {
		return "", false
	}
	if p := e.lvalueSafe(x); p != nil {
		switch p.kind {
		case pHeapStruct, pHeapCell, pSliceElem, pArray:
			return p.ref, true
		}
	}
	return "", false
}

func (e *specEnv) lvalueSafe(x Expr) (p *Ptr) {
	defer func() {
		if r := recover(); r != nil {
			if _, is := r.(specErr); is {
				p = nil
				return
			}
			if _, is := r.(unsupported); is {
				p = nil
				return
			}
			panic(r)
		}
	}()
	return e.lvalue(x)
}

// keyOfLValue maps a modifies expression to its heap key.
func (e *specEnv) keyOfLValue(x Expr) (key string, ok bool) {
	defer func() {
		if r := recover(); r != nil {
			if _, is := r.(specErr); is {
				ok = false
				return
			}
			if _, is := r.(unsupported); is {
				ok = false
				return
			}
			panic(r)
		}
	}()
	u := e.u
	switch n := x.(type) {
	case *EUnary:
		if n.Op == "*" {
			v := e.eval(n.X, nil)
			pt := v.typ.Underlying().(*types.Pointer)
			if v.ptr != nil && (v.ptr.kind == pLocal || v.ptr.kind == pGlobal) {
				return v.ptr.cell, true
			}
			switch tt := pt.Elem().Underlying().(type) {
			case *types.Struct:
				return "", false
			case *types.Array:
				return u.keyM(tt.Elem()), true
			}
			return u.keyCell(pt.Elem()), true
		}
	case *EField:
		v := e.eval(n.X, nil)
		t := v.typ
		if pt, ok := t.Underlying().(*types.Pointer); ok {
			t = pt.Elem()
		}
		st := t.Underlying().(*types.Struct)
		for i := 0; i < st.NumFields(); i++ {
			if st.Field(i).Name() == n.Name {
				return u.keyField(t, i), true
			}
		}
	case *EIndex:
		v := e.eval(n.X, nil)
		if sl, ok := v.typ.Underlying().(*types.Slice); ok {
			return u.keyM(sl.Elem()), true
		}
	case *EIdent:
		v := e.eval(n, nil)
		switch tt := v.typ.Underlying().(type) {
		case *types.Slice:
			return u.keyM(tt.Elem()), true
		}
	}
	return "", false
}

func (e *specEnv) lookup(name string) Val {
	if v, ok := e.vars[name]; ok {
		return v
	}
	if p, ok := e.freeCells[name]; ok {
		return Val{t: e.u.loadPtr(p, e.st), typ: p.targetType()}
	}
	// results
	if e.results != nil {
		if v, ok := e.resultByName(name); ok {
			return v
		}
	}
	if e.fr != nil {
		if v, ok := e.fr.lookupName(name, e.at, e.inclusive, e.phiSub, e.st); ok {
			return v
		}
	}
	// package-level variables of the contract's package
	if pk, ok := e.u.eng.PkgByPath[e.pkgPath]; ok && pk.Types != nil {
		if o, ok := pk.Types.Scope().Lookup(name).(*types.Var); ok {
			key := e.u.keyGlobal(pk.Name+"."+o.Name(), o.Type())
			return Val{t: e.st.get(e.u, key), typ: o.Type()}
		}
	}
	sfail("unknown identifier %s", name)
	return Val{}
}

func (e *specEnv) resultByName(name string) (Val, bool) {
	var sig *types.Signature
	if e.resultSig != nil {
		sig = e.resultSig
	} else if e.callee != nil {
		sig = e.callee.Signature
	}
	n := len(e.results)
	if name == "result" && n >= 1 {
		return e.results[0], true
	}
	if strings.HasPrefix(name, "result") {
		var k int
		if _, err := fmt.Sscanf(name, "result%d", &k); err == nil && k < n {
			return e.results[k], true
		}
	}
	if sig != nil {
		for i := 0; i < sig.Results().Len() && i < n; i++ {
			if rn := sig.Results().At(i).Name(); rn != "" && rn == name {
				return e.results[i], true
			}
		}
		if name == "err" && n >= 1 {
			last := sig.Results().At(sig.Results().Len() - 1).Type()
			if types.Identical(last, types.Universe.Lookup("error").Type()) {
				return e.results[n-1], true
			}
		}
	}
	return Val{}, false
}

// lookupName resolves a source-level variable name at the entry of block `at`.
func (fr *frame) lookupName(name string, at *ssa.BasicBlock, inclusive bool, phiSub map[*ssa.Phi]Val, st *state) (Val, bool) {
	resolve := func(v ssa.Value, isAddr bool) (Val, bool) {
		var val Val
		if phi, ok := v.(*ssa.Phi); ok && phiSub != nil {
			if sv, ok := phiSub[phi]; ok {
				val = sv
				goto have
			}
		}
		if r, ok := fr.vals[v]; ok {
			val = r
		} else {
			switch v.(type) {
			case *ssa.Const, *ssa.Global, *ssa.Function:
				val = fr.val(v)
			default:
				return Val{}, false
			}
		}
	have:
		if isAddr {
			p := fr.asPtr(val, v.Type())
			return Val{t: fr.u.loadPtr(p, st), typ: v.Type().Underlying().(*types.Pointer).Elem()}, true
		}
		return val, true
	}
	// a parameter evaluated in the entry state (old(...)): its value at the call, also when the
	// parameter lives in a cell (address taken / captured) that is only initialised by the body
	if fr.entry != nil && st == fr.entry {
		for _, p := range fr.fn.Params {
			if p.Name() == name {
				if v, ok := fr.vals[p]; ok {
					return v, true
				}
			}
		}
	}
	// captured variables of a closure live in the enclosing function's cell: read the cell in the
	// requested state (value bindings would ignore old())
	for i, fv := range fr.fn.FreeVars {
		if fv.Name() == name {
			v := fr.vals[fr.fn.FreeVars[i]]
			if v.ptr != nil || v.t != "" {
				p := fr.asPtr(v, fv.Type())
				return Val{t: fr.u.loadPtr(p, st), typ: fv.Type().Underlying().(*types.Pointer).Elem()}, true
			}
		}
	}
	// variables that live in a cell (address taken / captured by a closure): read the cell
	if at != nil {
		var cell *ssa.Alloc
		n := 0
		for _, blk := range fr.fn.Blocks {
			for _, ins := range blk.Instrs {
				if a, ok := ins.(*ssa.Alloc); ok && a.Comment == name {
					cell = a
					n++
				}
			}
		}
		if n == 1 {
			if _, translated := fr.vals[cell]; translated && (cell.Block() == at || cell.Block().Dominates(at)) {
				if v, ok := resolve(cell, true); ok {
					return v, true
				}
			}
		}
	}
	if at != nil {
		b := at
		first := true
		for b != nil {
			// phis of this block (only for the block itself when resolving at its entry, or any dominator)
			var phiHit *ssa.Phi
			for _, ins := range b.Instrs {
				phi, ok := ins.(*ssa.Phi)
				if !ok {
					break
				}
				if phi.Comment == name {
					phiHit = phi
				}
			}
			useDbg := !first || inclusive
			if useDbg {
				binds := fr.dbg[b]
				for i := len(binds) - 1; i >= 0; i-- {
					if binds[i].name == name {
						// a variable that lives in a cell is always read through the cell: value
						// bindings are snapshots that go stale when the cell is written
						if cell, ok := fr.cellOf[binds[i].obj]; ok {
							if v, ok := resolve(cell, true); ok {
								return v, true
							}
						}
						if v, ok := resolve(binds[i].v, binds[i].isAddr); ok {
							return v, true
						}
					}
				}
			}
			if phiHit != nil {
				if v, ok := resolve(phiHit, false); ok {
					return v, true
				}
			}
			first = false
			b = b.Idom()
		}
	}
	if v, ok := fr.paramVal[name]; ok {
		return v, true
	}
	for i, fv := range fr.fn.FreeVars {
		if fv.Name() == name {
			v := fr.vals[fr.fn.FreeVars[i]]
			// free variables are captured by reference: the value is the pointee
			if v.ptr != nil || v.t != "" {
				p := fr.asPtr(v, fv.Type())
				return Val{t: fr.u.loadPtr(p, st), typ: fv.Type().Underlying().(*types.Pointer).Elem()}, true
			}
		}
	}
	return Val{}, false
}

// resolveType: like Engine.ResolveType, but a type parameter name of the generic function the
// contract belongs to denotes the type argument of the instance at hand.
func (e *specEnv) resolveType(expr string) (types.Type, error) {
	fn := e.callee
	if fn == nil && e.fr != nil {
		fn = e.fr.fn
	}
	for f := fn; f != nil; f = f.Parent() {
		if o := f.Origin(); o != nil {
			tps, targs := o.TypeParams(), f.TypeArgs()
			for i := 0; i < tps.Len() && i < len(targs); i++ {
				if tps.At(i).Obj().Name() == strings.TrimSpace(expr) {
					return targs[i], nil
				}
			}
		}
	}
	t, err := e.u.eng.ResolveType(e.pkgPath, expr)
	if err != nil {
		return t, err
	}
	// a generic named type mentioned without type arguments inside a contract of a generic
	// function: instantiated with the type arguments of the instance at hand
	if n, ok := t.(*types.Named); ok && n.TypeParams().Len() > 0 && n.TypeArgs().Len() == 0 {
		for f := fn; f != nil; f = f.Parent() {
			if targs := f.TypeArgs(); len(targs) == n.TypeParams().Len() {
				if it, err := types.Instantiate(nil, n, targs, false); err == nil {
					return it, nil
				}
			}
		}
	}
	return t, nil
}

func (e *specEnv) noteKey(t types.Type, term string) {
	u := e.u
	if !u.collectKeys || strings.Contains(term, "q!") {
		return
	}
	for _, c := range u.keyCands {
		if c.term == term {
			return
		}
	}
	u.keyCands = append(u.keyCands, keyCand{t, term})
}
