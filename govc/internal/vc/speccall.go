package vc

import (
	"fmt"
	"go/types"

	"golang.org/x/tools/go/ssa"
	"sort"
	"strings"
)

type compiledSpec struct {
	name     string
	heapKeys []string
	params   []types.Type
	ret      types.Type
	busy     bool
	rec      bool
}

type recProv struct {
	keys map[string]bool
}

func (p *recProv) get(u *Unit, key string) string {
	p.keys[key] = true
	return q("hp!" + key)
}

var convTypes = map[string]types.Type{
	"int": types.Typ[types.Int], "int64": types.Typ[types.Int64], "int32": types.Typ[types.Int32], "int16": types.Typ[types.Int16], "int8": types.Typ[types.Int8],
	"uint": types.Typ[types.Uint], "uint64": types.Typ[types.Uint64], "uint32": types.Typ[types.Uint32], "uint16": types.Typ[types.Uint16], "uint8": types.Typ[types.Uint8], "byte": types.Typ[types.Uint8],
	"float32": types.Typ[types.Float32], "float64": types.Typ[types.Float64],
}

func (e *specEnv) callExpr(n *ECall, hint types.Type) sv {
	u := e.u
	m := u.mode
	argn := func(k int) {
		if len(n.Args) != k {
			sfail("%s expects %d argument(s)", n.Fun, k)
		}
	}
	switch n.Fun {
	case "len", "cap":
		argn(1)
		x := e.eval(n.Args[0], nil)
		if x.unk {
			return sv{unk: true}
		}
		if x.typ == nil {
			sfail("len of literal")
		}
		switch tt := x.typ.Underlying().(type) {
		case *types.Slice:
			if n.Fun == "len" {
				return sv{Val: Val{t: "(s_len " + x.t + ")", typ: tInt}}
			}
			return sv{Val: Val{t: "(s_cap " + x.t + ")", typ: tInt}}
		case *types.Basic:
			if isString(tt) {
				return sv{Val: Val{t: "(S_len " + x.t + ")", typ: tInt}}
			}
		case *types.Array:
			return sv{Val: Val{t: m.idxLit(tt.Len()), typ: tInt}}
		case *types.Map:
			return sv{Val: Val{t: fmt.Sprintf("(select %s %s)", e.st.get(u, u.keyMapLen()), x.t), typ: tInt}}
		}
		sfail("len of %s", x.typ)
	case "old":
		argn(1)
		o := *e
		o.st = e.old
		return o.eval(n.Args[0], hint)
	case "final":
		argn(1)
		id, ok := n.Args[0].(*EIdent)
		if !ok || e.fr == nil {
			sfail("final(x) needs a variable name inside a function contract")
		}
		v, ok := e.fr.lookupName(id.Name, e.at, true, e.phiSub, e.st)
		if !ok {
			sfail("unknown variable %s", id.Name)
		}
		return sv{Val: v}
	case "ite":
		argn(3)
		c := e.term(e.eval(n.Args[0], tBool), tBool)
		a := e.eval(n.Args[1], hint)
		b := e.eval(n.Args[2], orType(a.typ, hint))
		ty := orType(a.typ, orType(b.typ, orType(hint, tInt)))
		return sv{Val: Val{t: fmt.Sprintf("(ite %s %s %s)", c, e.term(a, ty), e.term(b, ty)), typ: ty}}
	case "min", "max":
		argn(2)
		a := e.eval(n.Args[0], hint)
		b := e.eval(n.Args[1], orType(a.typ, hint))
		ty := orType(a.typ, orType(b.typ, orType(hint, tInt)))
		ii, ok := basicIntInfo(ty)
		if !ok {
			sfail("min/max on %s", ty)
		}
		at, bt := e.term(a, ty), e.term(b, ty)
		op := "<="
		if n.Fun == "max" {
			op = ">="
		}
		return sv{Val: Val{t: fmt.Sprintf("(ite %s %s %s)", m.cmp(op, at, bt, ii.signed), at, bt), typ: ty}}
	case "isNaN":
		argn(1)
		x := e.eval(n.Args[0], types.Typ[types.Float64])
		if m.FPOrder {
			return sv{Val: Val{t: "false", typ: tBool}}
		}
		return sv{Val: Val{t: "(fp.isNaN " + e.term(x, types.Typ[types.Float64]) + ")", typ: tBool}}
	case "isInf":
		argn(1)
		x := e.eval(n.Args[0], types.Typ[types.Float64])
		if m.FPOrder {
			return sv{Val: Val{t: "false", typ: tBool}}
		}
		return sv{Val: Val{t: "(fp.isInfinite " + e.term(x, types.Typ[types.Float64]) + ")", typ: tBool}}
	case "sameFloat":
		// structural (bit-level, single NaN) equality of floats
		argn(2)
		a := e.eval(n.Args[0], nil)
		b := e.eval(n.Args[1], a.typ)
		return sv{Val: Val{t: "(= " + e.term(a, a.typ) + " " + e.term(b, a.typ) + ")", typ: tBool}}
	case "contains":
		argn(2)
		x := e.eval(n.Args[0], nil)
		mt, ok := x.typ.Underlying().(*types.Map)
		if !ok {
			sfail("contains expects a map")
		}
		k := e.term(e.eval(n.Args[1], mt.Key()), mt.Key())
		e.noteKey(mt.Key(), k)
		return sv{Val: Val{t: fmt.Sprintf("(select (select %s %s) %s)", e.st.get(u, u.keyMapDom(mt)), x.t, k), typ: tBool}}
	case "f64frombits", "f32frombits":
		argn(1)
		bits, it, ft := 64, types.Typ[types.Uint64], types.Typ[types.Float64]
		if n.Fun == "f32frombits" {
			bits, it, ft = 32, types.Typ[types.Uint32], types.Typ[types.Float32]
		}
		if !m.BV || m.FPOrder {
			sfail("%s needs arith bv + floats fp", n.Fun)
		}
		x := e.eval(n.Args[0], it)
		return sv{Val: Val{t: fmt.Sprintf("((_ to_fp %s) %s)", fpDims(bits), e.term(x, it)), typ: ft}}
	case "string":
		argn(1)
		x := e.eval(n.Args[0], nil)
		if sl, ok := x.typ.Underlying().(*types.Slice); ok {
			k := u.keyM(sl.Elem())
			arr := fmt.Sprintf("(select %s (s_ref %s))", e.st.get(u, k), x.t)
			return sv{Val: Val{t: fmt.Sprintf("(mk-str %s (s_len %s))", u.shift(arr, "(s_off "+x.t+")"), x.t), typ: types.Typ[types.String]}}
		}
		sfail("string() of %s", x.typ)
	}
	if to, ok := convTypes[n.Fun]; ok {
		argn(1)
		x := e.eval(n.Args[0], to)
		if x.lit != nil || x.flit != "" {
			return sv{Val: Val{t: e.term(x, to), typ: to}}
		}
		fi, fok := basicIntInfo(x.typ)
		ti, tok := basicIntInfo(to)
		ff, ffok := isFloat(x.typ)
		tf, tfok := isFloat(to)
		switch {
		case fok && tok:
			t, _ := m.convertInt(x.t, fi, ti)
			return sv{Val: Val{t: t, typ: to}}
		case ffok && tfok:
			if ff == tf {
				return sv{Val: Val{t: x.t, typ: to}}
			}
			if m.FPOrder {
				sfail("float width conversion in order mode")
			}
			return sv{Val: Val{t: fmt.Sprintf("((_ to_fp %s) RNE %s)", fpDims(tf), x.t), typ: to}}
		case fok && tfok:
			if m.FPOrder {
				sfail("int to float in order mode")
			}
			if m.BV {
				if fi.signed {
					return sv{Val: Val{t: fmt.Sprintf("((_ to_fp %s) RNE %s)", fpDims(tf), x.t), typ: to}}
				}
				return sv{Val: Val{t: fmt.Sprintf("((_ to_fp_unsigned %s) RNE %s)", fpDims(tf), x.t), typ: to}}
			}
			return sv{Val: Val{t: fmt.Sprintf("((_ to_fp %s) RNE (to_real %s))", fpDims(tf), x.t), typ: to}}
		}
		sfail("conversion %s(%s)", n.Fun, x.typ)
	}
	if sym, ok := e.ghost[n.Fun]; ok {
		argn(1)
		return sv{Val: Val{t: "(" + sym + " " + e.term(e.eval(n.Args[0], tInt), tInt) + ")", typ: tInt}}
	}
	switch n.Fun {
	case "held", "heldW", "heldR", "unheld":
		argn(1)
		return sv{Val: Val{t: e.heldTerm(n.Fun, n.Args[0]), typ: tBool}}
	}
	switch n.Fun {
	case "lastbytes":
		// lastbytes(Name, i): content (as a string) of the []byte argument i of the last call to Name, at call time
		argn(2)
		id, ok := n.Args[0].(*EIdent)
		ii, ok2 := n.Args[1].(*EInt)
		if !ok || !ok2 {
			sfail("lastbytes(Name, i)")
		}
		k := fmt.Sprintf("Arg.%s.%s.bytes", id.Name, ii.Val)
		if _, ok := u.keySort[k]; !ok {
			sfail("lastbytes: no recorded []byte argument %s of %s (is it called in this function?)", ii.Val, id.Name)
		}
		return sv{Val: Val{t: e.st.get(u, k), typ: types.Typ[types.String]}}
	case "calledwitharg":
		// calledwitharg(Name, i, x): some call to Name made so far had x as its argument i (0 = receiver)
		argn(3)
		id, ok := n.Args[0].(*EIdent)
		ii, ok2 := n.Args[1].(*EInt)
		if !ok || !ok2 {
			sfail("calledwitharg(Name, i, x)")
		}
		kk := "CalledWith." + id.Name + "." + ii.Val
		if _, have := u.keySort[kk]; !have {
			// no call met yet: the key's type is that of x itself
			x := e.eval(n.Args[2], nil)
			if x.typ == nil {
				sfail("calledwitharg: cannot type the third argument")
			}
			u.regKey(kk, "(Array "+u.sortOf(x.typ)+" Bool)")
			u.argKeyType[kk] = x.typ
		}
		x := e.eval(n.Args[2], u.argKeyType[kk])
		return sv{Val: Val{t: "(select " + e.st.get(u, kk) + " " + e.term(x, u.argKeyType[kk]) + ")", typ: tBool}}
	case "calledwith":
		// calledwith(cb, x): the callback parameter cb has been called with first argument x
		argn(2)
		id, ok := n.Args[0].(*EIdent)
		if !ok {
			sfail("calledwith needs a callback name")
		}
		var kk string
		for _, k := range sortedKeys(u.keySort) {
			if k == "CalledWith."+id.Name {
				kk = k
			}
		}
		if kk == "" {
			// not called anywhere (yet): the key type comes from the callback's signature
			if e.fr == nil {
				sfail("calledwith is only available in function contracts")
			}
			for _, p := range e.fr.fn.Params {
				if p.Name() == id.Name {
					if sg, ok := p.Type().Underlying().(*types.Signature); ok && sg.Params().Len() > 0 {
						kk = u.regKey("CalledWith."+id.Name, "(Array "+u.sortOf(sg.Params().At(0).Type())+" Bool)")
						u.argKeyType[kk] = sg.Params().At(0).Type()
					}
				}
			}
			if kk == "" {
				sfail("calledwith: %s is not a callback parameter", id.Name)
			}
		}
		x := e.eval(n.Args[1], u.argKeyType[kk])
		return sv{Val: Val{t: "(select " + e.st.get(u, kk) + " " + e.term(x, u.argKeyType[kk]) + ")", typ: tBool}}
	case "ncalls", "lastres", "lastarg":
		// ghost call record of the function under verification (see trackedCall)
		if len(n.Args) < 1 {
			sfail("%s(Name...)", n.Fun)
		}
		id, ok := n.Args[0].(*EIdent)
		if !ok {
			sfail("%s needs a function name", n.Fun)
		}
		switch n.Fun {
		case "ncalls":
			k := u.regKey("Calls."+id.Name, u.mode.idxSort())
			return sv{Val: Val{t: u.idxSub(e.st.get(u, k), e.old.get(u, k)), typ: tInt}}
		case "lastres":
			k := u.regKey("Res."+id.Name, "Ifc")
			return sv{Val: Val{t: e.st.get(u, k), typ: types.Universe.Lookup("error").Type()}}
		default:
			argn(2)
			ii, ok := n.Args[1].(*EInt)
			if !ok {
				sfail("lastarg(Name, i)")
			}
			pfx := fmt.Sprintf("Arg.%s.%s.", id.Name, ii.Val)
			for _, k := range sortedKeys(u.keySort) {
				if strings.HasPrefix(k, pfx) {
					return sv{Val: Val{t: e.st.get(u, k), typ: u.argKeyType[k]}}
				}
			}
			sfail("lastarg: no recorded argument %s of %s (is it called in this function?)", ii.Val, id.Name)
		}
	}
	if n.Fun == "samearray" {
		// samearray(a, b): the two slices view the same backing array
		argn(2)
		a := e.eval(n.Args[0], nil)
		b := e.eval(n.Args[1], a.typ)
		if a.typ == nil || b.typ == nil {
			sfail("samearray(a, b) needs two slices")
		}
		if _, ok := a.typ.Underlying().(*types.Slice); !ok {
			sfail("samearray(a, b) needs two slices")
		}
		if _, ok := b.typ.Underlying().(*types.Slice); !ok {
			sfail("samearray(a, b) needs two slices")
		}
		return sv{Val: Val{t: fmt.Sprintf("(= (s_ref %s) (s_ref %s))", e.term(a, a.typ), e.term(b, b.typ)), typ: tBool}}
	}
	if n.Fun == "dyn" || n.Fun == "isdyn" {
		// dyn(x, T): the value of dynamic type T that the interface value x holds (what x.(T) yields
		// when it succeeds); isdyn(x, T): x holds a value of dynamic type T
		argn(2)
		x := e.eval(n.Args[0], nil)
		if x.typ == nil {
			sfail("%s(x, T) needs an interface value", n.Fun)
		}
		if _, ok := x.typ.Underlying().(*types.Interface); !ok {
			sfail("%s(x, T) needs an interface value", n.Fun)
		}
		ty, err := e.resolveType(n.Args[1].String())
		if err != nil {
			sfail("%s: %v", n.Fun, err)
		}
		it := e.term(x, x.typ)
		if n.Fun == "isdyn" {
			return sv{Val: Val{t: fmt.Sprintf("(= (i_tag %s) %d)", it, u.eng.typeID(ty)), typ: tBool}}
		}
		_, ubx := u.boxFns(ty, u.sortOf(ty))
		return sv{Val: Val{t: "(" + ubx + " (i_pay " + it + "))", typ: ty}}
	}
	if n.Fun == "bhas" {
		// bhas(b, x): x is an element of the set represented by the roaring bitmap b (ghost view)
		argn(2)
		b := e.eval(n.Args[0], nil)
		if b.typ == nil {
			sfail("bhas(bitmap, x)")
		}
		x := e.term(e.eval(n.Args[1], types.Typ[types.Uint64]), types.Typ[types.Uint64])
		k := u.roaringKey()
		return sv{Val: Val{t: fmt.Sprintf("(select (select %s %s) %s)", e.st.get(u, k), e.term(b, b.typ), x), typ: tBool}}
	}
	if n.Fun == "fresh" {
		// fresh(x): the object x refers to was allocated after the function was entered
		argn(1)
		x := e.eval(n.Args[0], nil)
		if x.typ == nil || !isRefLike(x.typ) || (u.entryState == nil && e.freshBase == "") {
			sfail("fresh(x) needs a slice, pointer or map inside a function contract")
		}
		base := e.freshBase
		if base == "" {
			base = u.entryState.get(u, allocKey)
		}
		return sv{Val: Val{t: "(> " + refOf(e.term(x, x.typ), x.typ) + " " + base + ")", typ: tBool}}
	}
	if n.Fun == "noneHeld" {
		// noneHeld(Struct.field): this function holds no lock of that class
		argn(1)
		f, ok := n.Args[0].(*EField)
		if !ok {
			sfail("noneHeld(Struct.field)")
		}
		id, ok2 := f.X.(*EIdent)
		if !ok2 {
			sfail("noneHeld(Struct.field)")
		}
		pn := ""
		if p, ok := u.eng.PkgByPath[e.pkgPath]; ok {
			pn = p.Name + "."
		}
		hk := u.regKey("Held."+pn+id.Name+"."+f.Name, "(Array Int Int)")
		return sv{Val: Val{t: fmt.Sprintf("(forall ((r!h Int)) (= (select %s r!h) 0))", e.st.get(u, hk)), typ: tBool}}
	}
	if n.Fun == "blockingAcquisitions" {
		// blockingAcquisitions(Struct.field): number of potentially blocking acquisitions of locks of
		// that class (objects not allocated by the function itself) since the function was entered
		argn(1)
		f, ok := n.Args[0].(*EField)
		id, ok2 := f.X.(*EIdent)
		if !ok || !ok2 {
			sfail("blockingAcquisitions(Struct.field)")
		}
		pn := ""
		if p, ok := u.eng.PkgByPath[e.pkgPath]; ok {
			pn = p.Name + "."
		}
		bk := u.regKey("Blk."+pn+id.Name+"."+f.Name, "Int")
		return sv{Val: Val{t: "(- " + e.st.get(u, bk) + " " + e.old.get(u, bk) + ")", typ: tInt}}
	}
	if n.Fun == "rangepos" {
		// rangepos(): the byte index the nearest enclosing range-over-string loop has reached
		argn(0)
		if e.fr == nil || e.at == nil {
			sfail("rangepos() is only available in loop invariants")
		}
		for b := e.at; b != nil; b = b.Idom() {
			for i := len(b.Instrs) - 1; i >= 0; i-- {
				if r, ok := b.Instrs[i].(*ssa.Range); ok && e.fr.ranges[r] != nil && e.fr.ranges[r].str {
					return sv{Val: Val{t: e.st.get(u, e.fr.ranges[r].key), typ: tInt}}
				}
			}
		}
		sfail("rangepos(): no enclosing range over a string")
	}
	if n.Fun == "visited" {
		// visited(k): key k has been produced by the nearest enclosing map range loop
		argn(1)
		if e.fr == nil || e.at == nil {
			sfail("visited() is only available in loop invariants")
		}
		var ri *rangeInfo
		for b := e.at; b != nil && ri == nil; b = b.Idom() {
			for i := len(b.Instrs) - 1; i >= 0; i-- {
				if r, ok := b.Instrs[i].(*ssa.Range); ok && e.fr.ranges[r] != nil {
					ri = e.fr.ranges[r]
					break
				}
			}
		}
		if ri == nil {
			sfail("visited(): no enclosing map range")
		}
		k := e.term(e.eval(n.Args[0], ri.mt.Key()), ri.mt.Key())
		return sv{Val: Val{t: fmt.Sprintf("(select %s %s)", e.st.get(u, ri.key), k), typ: tBool}}
	}
	if n.Fun == "callarg" {
		// callarg(Name, k, i): i-th argument (0 = receiver for methods) of the k-th call (1-based) to a function named Name
		if len(n.Args) != 3 || e.fr == nil {
			sfail("callarg(Name, k, i) is only available in function contracts")
		}
		id, ok := n.Args[0].(*EIdent)
		kk, ok2 := n.Args[1].(*EInt)
		ii, ok3 := n.Args[2].(*EInt)
		if !ok || !ok2 || !ok3 {
			sfail("callarg(Name, k, i) needs a name and two literals")
		}
		var k, i int
		fmt.Sscan(kk.Val, &k)
		fmt.Sscan(ii.Val, &i)
		calls := e.fr.callLog[id.Name]
		if k >= 1 && k > len(calls) && len(calls) > 0 {
			// fewer calls than the contract speaks about: the value is undetermined (the clause's
			// own ncalls() conjunct decides); with no call at all the clause does not bind
			u.note("%s: contract refers to call %d of %s, the body makes %d", e.fr.fn.Name(), k, id.Name, len(calls))
			return sv{unk: true}
		}
		if k < 1 || k > len(calls) {
			sfail("callarg: function makes %d call(s) to %s, call %d requested", len(calls), id.Name, k)
		}
		ord := e.fr.callOrder(id.Name, len(calls))
		if i < 0 || i >= len(calls[ord[k-1]]) {
			sfail("callarg: call has %d argument(s)", len(calls[ord[k-1]]))
		}
		return sv{Val: calls[ord[k-1]][i]}
	}
	if n.Fun == "callres" {
		// callres(Name, k, i): i-th result of the k-th call (1-based, in program order) to a function named Name
		if len(n.Args) != 3 || e.fr == nil {
			sfail("callres(Name, k, i) is only available in function contracts")
		}
		id, ok := n.Args[0].(*EIdent)
		kk, ok2 := n.Args[1].(*EInt)
		ii, ok3 := n.Args[2].(*EInt)
		if !ok || !ok2 || !ok3 {
			sfail("callres(Name, k, i) needs a name and two literals")
		}
		var k, i int
		fmt.Sscan(kk.Val, &k)
		fmt.Sscan(ii.Val, &i)
		calls := e.fr.resLog[id.Name]
		if k >= 1 && k > len(calls) && len(calls) > 0 {
			u.note("%s: contract refers to call %d of %s, the body makes %d", e.fr.fn.Name(), k, id.Name, len(calls))
			return sv{unk: true}
		}
		if k < 1 || k > len(calls) {
			sfail("callres: function makes %d call(s) to %s, call %d requested", len(calls), id.Name, k)
		}
		r := calls[e.fr.callOrder(id.Name, len(calls))[k-1]]
		if r.tup != nil {
			if i < 0 || i >= len(r.tup) {
				sfail("callres: call has %d result(s)", len(r.tup))
			}
			return sv{Val: r.tup[i]}
		}
		if i != 0 {
			sfail("callres: call has one result")
		}
		return sv{Val: r}
	}
	if n.Fun == "call" {
		if len(n.Args) < 1 {
			sfail("call(f, args...)")
		}
		f := e.eval(n.Args[0], nil)
		if f.fn == nil || len(f.binds) > 0 {
			sfail("call() needs a statically known function without captured variables")
		}
		sym, ptypes, rt := u.pureFnSymbol(f.fn)
		if len(n.Args)-1 != len(ptypes) {
			sfail("call(%s): wrong number of arguments", f.fn.Name())
		}
		parts := []string{sym}
		for i, a := range n.Args[1:] {
			parts = append(parts, e.term(e.eval(a, ptypes[i]), ptypes[i]))
		}
		return sv{Val: Val{t: "(" + strings.Join(parts, " ") + ")", typ: rt}}
	}
	// spec functions
	sf, ok := u.eng.CS.Specs[n.Fun]
	if !ok {
		sfail("unknown function %s", n.Fun)
	}
	cs := u.compileSpec(sf)
	if len(n.Args) != len(cs.params) {
		sfail("%s expects %d argument(s)", n.Fun, len(cs.params))
	}
	var parts []string
	for _, k := range cs.heapKeys {
		parts = append(parts, e.st.get(u, k))
	}
	for i, a := range n.Args {
		parts = append(parts, e.term(e.eval(a, cs.params[i]), cs.params[i]))
	}
	if len(parts) == 0 {
		return sv{Val: Val{t: q(cs.name), typ: cs.ret}}
	}
	return sv{Val: Val{t: "(" + q(cs.name) + " " + strings.Join(parts, " ") + ")", typ: cs.ret}}
}

func (u *Unit) compileSpec(sf *SpecFn) *compiledSpec {
	if cs, ok := u.specDone[sf.Name]; ok {
		if cs.busy {
			cs.rec = true
		}
		return cs
	}
	cs := &compiledSpec{name: sf.Name, busy: true}
	u.specDone[sf.Name] = cs
	defer func() {
		// a spec function that cannot be compiled in this unit's mode leaves no trace: a later use
		// must fail the same way instead of referring to a definition that was never emitted
		if r := recover(); r != nil {
			delete(u.specDone, sf.Name)
			panic(r)
		}
	}()
	for _, p := range sf.Params {
		t, err := u.eng.ResolveType(sf.PkgPath, p.Type)
		if err != nil {
			sfail("spec %s: %v", sf.Name, err)
		}
		cs.params = append(cs.params, t)
	}
	rt, err := u.eng.ResolveType(sf.PkgPath, sf.Ret)
	if err != nil {
		sfail("spec %s: %v", sf.Name, err)
	}
	cs.ret = rt
	var sig []string
	mkEnv := func(rp *recProv) *specEnv {
		env := &specEnv{u: u, st: &state{over: map[string]string{}, base: rp}, vars: map[string]Val{}, pkgPath: sf.PkgPath}
		env.old = env.st
		for i, p := range sf.Params {
			env.vars[p.Name] = Val{t: q("p!" + p.Name), typ: cs.params[i]}
		}
		return env
	}
	if sf.Body == nil {
		// uninterpreted function, heap independent
		for _, t := range cs.params {
			sig = append(sig, u.sortOf(t))
		}
		u.emit("(declare-fun %s (%s) %s)", q(sf.Name), strings.Join(sig, " "), u.sortOf(rt))
		cs.busy = false
		if len(sig) > 0 {
			var bs, ns []string
			for i, t := range cs.params {
				ns = append(ns, fmt.Sprintf("x!%d", i))
				bs = append(bs, fmt.Sprintf("(x!%d %s)", i, u.sortOf(t)))
			}
			app := "(" + q(sf.Name) + " " + strings.Join(ns, " ") + ")"
			if ti := u.typeInvariant(app, rt, 0); ti != "" {
				u.emit("(assert (forall (%s) (! %s :pattern (%s))))", strings.Join(bs, " "), ti, app)
			}
		}
		for _, ax := range sf.Axioms {
			env := &specEnv{u: u, st: &state{over: map[string]string{}, base: &recProv{keys: map[string]bool{}}}, vars: map[string]Val{}, pkgPath: sf.PkgPath}
			env.old = env.st
			t, err := env.boolExpr(ax.E)
			if err != nil {
				sfail("axiom of %s: %v", sf.Name, err)
			}
			u.assert(t)
		}
		u.note("uninterpreted spec function %s (with %d axiom(s))", sf.Name, len(sf.Axioms))
		return cs
	}
	// pass 1: discover heap keys (iterate to a fixpoint for recursive specs)
	var body string
	for iter := 0; iter < 4; iter++ {
		rp := &recProv{keys: map[string]bool{}}
		env := mkEnv(rp)
		v := env.eval(sf.Body, rt)
		body = env.term(v, rt)
		keys := sortedKeys(rp.keys)
		if strings.Join(keys, ",") == strings.Join(cs.heapKeys, ",") {
			break
		}
		cs.heapKeys = keys
		if !cs.rec {
			break
		}
	}
	sort.Strings(cs.heapKeys)
	for _, k := range cs.heapKeys {
		sig = append(sig, fmt.Sprintf("(%s %s)", q("hp!"+k), u.keySort[k]))
	}
	for i, p := range sf.Params {
		sig = append(sig, fmt.Sprintf("(%s %s)", q("p!"+p.Name), u.sortOf(cs.params[i])))
	}
	kw := "define-fun"
	if cs.rec {
		kw = "define-fun-rec"
	}
	u.emit("(%s %s (%s) %s %s)", kw, q(sf.Name), strings.Join(sig, " "), u.sortOf(rt), body)
	cs.busy = false
	return cs
}

// pureFnSymbol: an uninterpreted function standing for the result of a pure Go function,
// axiomatised by that function's (separately verified) contract.
func (u *Unit) pureFnSymbol(fn *ssa.Function) (string, []types.Type, types.Type) {
	ct := u.eng.ContractFor(fn)
	if ct == nil || !ct.Pure {
		sfail("call(): %s has no contract marked pure", fn.Name())
	}
	if fn.Signature.Results().Len() != 1 {
		sfail("call(): %s must have exactly one result", fn.Name())
	}
	sym := q("fnres!" + fn.Name())
	var ptypes []types.Type
	for _, p := range fn.Params {
		ptypes = append(ptypes, p.Type())
	}
	rt := fn.Signature.Results().At(0).Type()
	if u.declared["fn:"+sym] {
		return sym, ptypes, rt
	}
	u.declared["fn:"+sym] = true
	var sorts, binders, names []string
	rp := &recProv{keys: map[string]bool{}}
	env := &specEnv{u: u, st: &state{over: map[string]string{}, base: rp}, vars: map[string]Val{}, pkgPath: ct.PkgPath, callee: fn}
	env.old = env.st
	var tis []string
	for i, p := range fn.Params {
		srt := u.sortOf(ptypes[i])
		sorts = append(sorts, srt)
		nm := q("a!" + p.Name())
		names = append(names, nm)
		binders = append(binders, "("+nm+" "+srt+")")
		env.vars[p.Name()] = Val{t: nm, typ: ptypes[i]}
		if ti := u.typeInvariant(nm, ptypes[i], 0); ti != "" {
			tis = append(tis, ti)
		}
	}
	u.emit("(declare-fun %s (%s) %s)", sym, strings.Join(sorts, " "), u.sortOf(rt))
	app := "(" + sym + " " + strings.Join(names, " ") + ")"
	if len(names) == 0 {
		app = sym
	}
	env.results = []Val{{t: app, typ: rt}}
	var pres, posts []string
	pres = append(pres, tis...)
	for _, rq := range ct.Requires {
		pres = append(pres, env.term(env.eval(rq.E, tBool), tBool))
	}
	for _, en := range ct.Ensures {
		posts = append(posts, env.term(env.eval(en.E, tBool), tBool))
	}
	if ti := u.typeInvariant(app, rt, 0); ti != "" {
		posts = append(posts, ti)
	}
	if len(rp.keys) > 0 {
		sfail("call(): contract of %s reads the heap (%v)", fn.Name(), sortedKeys(rp.keys))
	}
	if len(posts) > 0 && len(names) > 0 {
		u.emit("(assert (forall (%s) (! (=> (and true %s) (and true %s)) :pattern (%s))))", strings.Join(binders, " "), strings.Join(pres, " "), strings.Join(posts, " "), app)
	}
	u.note("result of pure function %s represented by an uninterpreted function axiomatised by its contract", fn.Name())
	return sym, ptypes, rt
}

// roaringKey: ghost heap of the sets represented by roaring bitmaps
func (u *Unit) roaringKey() string {
	return u.regKey("Ghost.roaring", "(Array Int (Array "+u.mode.intSort(intInfo{64, false})+" Bool))")
}
