package vc

// Ghost lock state (DESIGN §2.6): sync.Mutex / sync.RWMutex operations update a ghost heap
// Held.<Struct>.<field> : Ref -> Int (0 free, 1 held exclusively, 2 held shared). Obligations:
//   typestate  Unlock/RUnlock require the matching mode;
//   lockrank   a blocking acquisition requires that no lock of an equal or higher level is held
//              (levels are declared with `//@ locklevel Struct.field N`); locks of objects
//              allocated in the same function and TryLock/TryRLock are exempt (cannot block);
//   guarded    (see guardedCheck) accesses to fields declared `//@ guarded S.f by S.mu`.
// Mutual exclusion itself is the Go runtime's business and is not modelled.

import (
	"fmt"
	"go/token"
	"go/types"
	"sort"
	"strings"

	"golang.org/x/tools/go/ssa"
)

const (
	lockFree   = "0"
	lockExcl   = "1"
	lockShared = "2"
)

// lockLoc identifies the ghost location of a mutex from the pointer to it.
func (u *Unit) lockLoc(p *Ptr) (key, ref string, fresh bool, ok bool) {
	switch p.kind {
	case pHeapStruct:
		if len(p.path) == 0 {
			return "", "", false, false
		}
		var names []string
		t := p.typ
		for _, el := range p.path {
			if el.field < 0 {
				return "", "", false, false
			}
			st := t.Underlying().(*types.Struct)
			names = append(names, st.Field(el.field).Name())
			t = st.Field(el.field).Type()
		}
		key = "Held." + shortTypeName(p.typ) + "." + strings.Join(names, ".")
		u.regKey(key, "(Array Int Int)")
		return key, p.ref, u.freshRefs[p.ref], true
	case pHeapCell:
		key = "Held.cell." + shortTypeName(p.typ)
		u.regKey(key, "(Array Int Int)")
		return key, p.ref, u.freshRefs[p.ref], true
	case pLocal:
		key = "Held.local." + p.cell
		u.regKey(key, "(Array Int Int)")
		return key, "0", true, true
	case pGlobal:
		key = "Held.global." + p.cell
		u.regKey(key, "(Array Int Int)")
		return key, "0", false, true
	}
	return "", "", false, false
}

func lockKeyOfDecl(name string) string { return "Held." + name }

// lockIntrinsic handles the methods of sync.Mutex / sync.RWMutex.
func (fr *frame) lockIntrinsic(v ssa.Value, callee *ssa.Function, args []Val, pos ssa.Instruction) (Val, bool) {
	name := callee.String()
	var op string
	switch name {
	case "(*sync.Mutex).Lock", "(*sync.RWMutex).Lock":
		op = "lock"
	case "(*sync.Mutex).Unlock", "(*sync.RWMutex).Unlock":
		op = "unlock"
	case "(*sync.RWMutex).RLock":
		op = "rlock"
	case "(*sync.RWMutex).RUnlock":
		op = "runlock"
	case "(*sync.Mutex).TryLock", "(*sync.RWMutex).TryLock":
		op = "trylock"
	case "(*sync.RWMutex).TryRLock":
		op = "tryrlock"
	default:
		return Val{}, false
	}
	u := fr.u
	if len(args) == 0 {
		return Val{}, false
	}
	p := fr.asPtr(args[0], callee.Params[0].Type())
	key, ref, fresh, ok := u.lockLoc(p)
	if !ok {
		u.note("%s: lock operation on a location that cannot be named; ignored", fr.fn.Name())
		return Val{typ: v.Type()}, true
	}
	h := fr.st.get(u, key)
	cur := fmt.Sprintf("(select %s %s)", h, ref)
	set := func(val string) {
		fr.st.setAt(key, fmt.Sprintf("(store %s %s %s)", h, ref, val), ref)
	}
	what := strings.TrimPrefix(key, "Held.")
	switch op {
	case "lock", "rlock":
		if !fresh {
			fr.lockRank(key, what, pos)
			// ghost counter of potentially blocking acquisitions per lock class
			bk := u.regKey("Blk."+what, "Int")
			fr.st.set(bk, "(+ "+fr.st.get(u, bk)+" 1)")
		}
		// acquiring a lock this goroutine already holds is a self-deadlock
		fr.safetyCheckAlways("typestate", "acquire "+what+": not already held by this function", pos.Pos(), "(= "+cur+" "+lockFree+")")
		if op == "lock" {
			set(lockExcl)
		} else {
			set(lockShared)
		}
		return Val{typ: v.Type()}, true
	case "unlock":
		fr.safetyCheckAlways("typestate", "unlock "+what+": held exclusively", pos.Pos(), "(= "+cur+" "+lockExcl+")")
		set(lockFree)
		return Val{typ: v.Type()}, true
	case "runlock":
		fr.safetyCheckAlways("typestate", "runlock "+what+": held shared", pos.Pos(), "(= "+cur+" "+lockShared+")")
		set(lockFree)
		return Val{typ: v.Type()}, true
	case "trylock", "tryrlock":
		okc := u.declConst(fr.tag("try_ok"), "Bool")
		mode := lockExcl
		if op == "tryrlock" {
			mode = lockShared
		}
		fr.safetyCheckAlways("typestate", "try-acquire "+what+": not already held by this function", pos.Pos(), "(= "+cur+" "+lockFree+")")
		fr.st.setAt(key, fmt.Sprintf("(store %s %s (ite %s %s %s))", h, ref, okc, mode, cur), ref)
		return Val{t: okc, typ: types.Typ[types.Bool]}, true
	}
	return Val{}, false
}

func (fr *frame) safetyCheckAlways(kind, desc string, pos token.Pos, goal string) {
	fr.u.addObl(kind, desc, fr.pos(pos), fr.cur, goal)
	fr.assume(goal)
}

// lockRank: no lock of an equal or higher level may be held when blocking on `key`.
func (fr *frame) lockRank(key, what string, pos ssa.Instruction) {
	u := fr.u
	levels := u.eng.CS.LockLevels
	if fr.contract != nil {
		for _, nb := range fr.contract.NonBlocking {
			if "Held."+nb == key {
				u.note("acquisition of %s assumed non-blocking in %s (declared in the contract with its justification)", what, fr.fn.Name())
				return
			}
		}
	}
	lv, ok := levels[key]
	if !ok {
		u.note("lock %s has no declared level: acquisition order not checked", what)
		return
	}
	var ks []string
	for k, l := range levels {
		if l >= lv {
			ks = append(ks, k)
		}
	}
	sort.Strings(ks)
	var parts []string
	for _, k := range ks {
		u.regKey(k, "(Array Int Int)")
		cond := "true"
		for _, f := range sortedKeys(u.freshRefs) {
			cond += " (not (= r " + f + "))"
		}
		if u.eng.CS.LongTerm[k] && u.entryState != nil {
			cond += " (= (select " + u.entryState.get(u, k) + " r) 0)"
		}
		parts = append(parts, fmt.Sprintf("(forall ((r Int)) (=> (and %s) (= (select %s r) 0)))", cond, fr.st.get(u, k)))
	}
	goal := "(and true " + strings.Join(parts, " ") + ")"
	var names []string
	for _, k := range ks {
		names = append(names, strings.TrimPrefix(k, "Held."))
	}
	fr.u.addObl("lockrank", fmt.Sprintf("blocking acquisition of %s (level %d): no lock of level >= %d is held (%s)", what, lv, lv, strings.Join(names, ", ")), fr.pos(pos.Pos()), fr.cur, goal)
}

// chanBlock (opt-in, contract: safety +chanblock): a plain channel send or receive outside a select
// may block for as long as the peer pleases; doing so while a lock with a declared level is held
// is the channel form of a lock-order violation (the peer may be waiting for that very lock).
func (fr *frame) chanBlock(what string, pos token.Pos) {
	u := fr.u
	if fr.contract == nil || !fr.contract.Safety["chanblock"] {
		return
	}
	levels := u.eng.CS.LockLevels
	var ks []string
	for k := range levels {
		ks = append(ks, k)
	}
	sort.Strings(ks)
	if len(ks) == 0 {
		return
	}
	var parts, names []string
	for _, k := range ks {
		u.regKey(k, "(Array Int Int)")
		parts = append(parts, fmt.Sprintf("(forall ((r Int)) (= (select %s r) 0))", fr.st.get(u, k)))
		names = append(names, strings.TrimPrefix(k, "Held."))
	}
	fr.u.addObl("chanblock", fmt.Sprintf("blocking %s: no lock with a declared level is held (%s)", what, strings.Join(names, ", ")), fr.pos(pos), fr.cur, "(and true "+strings.Join(parts, " ")+")")
}

// heldTerm: spec builtin held(e) / heldW(e) / heldR(e) / unheld(e)
func (e *specEnv) heldTerm(fun string, x Expr) string {
	u := e.u
	p := e.lvalue(x)
	key, ref, _, ok := u.lockLoc(p)
	if !ok {
		sfail("%s(): cannot name the lock location", fun)
	}
	if e.entryHeld != nil && fun != "unheld" {
		e.entryHeld[key] = append(e.entryHeld[key], ref)
	}
	cur := fmt.Sprintf("(select %s %s)", e.st.get(u, key), ref)
	switch fun {
	case "held":
		return "(not (= " + cur + " 0))"
	case "heldW":
		return "(= " + cur + " 1)"
	case "heldR":
		return "(= " + cur + " 2)"
	}
	return "(= " + cur + " 0)"
}

// lvalue evaluates an expression denoting a location (x.f.g, *p, x) to a pointer.
func (e *specEnv) lvalue(x Expr) *Ptr {
	u := e.u
	switch n := x.(type) {
	case *EField:
		base := e.eval(n.X, nil)
		t := base.typ
		var p *Ptr
		if pt, ok := t.Underlying().(*types.Pointer); ok {
			t = pt.Elem()
			if base.ptr != nil {
				p = base.ptr
			} else {
				p = u.ptrFromRef(base.t, t)
			}
		} else {
			// a struct value reached through an lvalue
			p = e.lvalue(n.X)
			t = p.targetType()
		}
		st, ok := t.Underlying().(*types.Struct)
		if !ok {
			sfail("%s has no fields", t)
		}
		for i := 0; i < st.NumFields(); i++ {
			if st.Field(i).Name() == n.Name {
				return p.extend(pathEl{field: i, owner: t})
			}
		}
		sfail("no field %s", n.Name)
	case *EUnary:
		if n.Op == "*" {
			v := e.eval(n.X, nil)
			if v.ptr != nil {
				return v.ptr
			}
			return u.ptrFromRef(v.t, v.typ.Underlying().(*types.Pointer).Elem())
		}
	case *EIdent:
		if p, ok := e.freeCells[n.Name]; ok {
			return p
		}
		v := e.eval(n, nil)
		if v.ptr != nil {
			return v.ptr
		}
	}
	sfail("expression does not denote a location")
	return nil
}

// lockRankLevel: obligation at a call to a function declared `locks N` (it may block on locks of level >= N)
func (fr *frame) lockRankLevel(lv int, what string, pos ssa.Instruction) {
	u := fr.u
	levels := u.eng.CS.LockLevels
	var ks []string
	for k, l := range levels {
		if l >= lv {
			ks = append(ks, k)
		}
	}
	sort.Strings(ks)
	var parts []string
	for _, k := range ks {
		u.regKey(k, "(Array Int Int)")
		cond := "true"
		for _, f := range sortedKeys(u.freshRefs) {
			cond += " (not (= r " + f + "))"
		}
		if u.eng.CS.LongTerm[k] && u.entryState != nil {
			cond += " (= (select " + u.entryState.get(u, k) + " r) 0)"
		}
		parts = append(parts, fmt.Sprintf("(forall ((r Int)) (=> (and %s) (= (select %s r) 0)))", cond, fr.st.get(u, k)))
	}
	fr.u.addObl("lockrank", fmt.Sprintf("call to %s, which may block on locks of level >= %d: no such lock is held", what, lv), fr.pos(pos.Pos()), fr.cur, "(and true "+strings.Join(parts, " ")+")")
}
