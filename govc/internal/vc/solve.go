package vc

// Solver racing: every obligation is run on z3 4.8.12, z3-new 5.1.0 and cvc5 in parallel;
// the first definitive answer wins.

import (
	"regexp"
	"bytes"
	"context"
	"fmt"
	"os"
	"os/exec"
	"path/filepath"
	"strings"
	"sync"
	"time"
)

type SolverAnswer struct {
	Solver string
	Result string // unsat | sat | unknown | timeout | error
	Ms     int64
	Output string
}

type OblResult struct {
	O        *Obligation
	Status   string // discharged | refuted | undischarged | cover-ok | cover-vacuous
	Winner   SolverAnswer
	All      []SolverAnswer
	File     string
	Model    string
	Bytes    int
	Asserts  int
}

type solverSpec struct {
	name string
	argv func(file string, secs int) []string
}

var solvers = []solverSpec{
	{"z3-new", func(f string, s int) []string { return []string{"z3-new", fmt.Sprintf("-T:%d", s), "-smt2", f} }},
	{"z3", func(f string, s int) []string { return []string{"z3", fmt.Sprintf("-T:%d", s), "-smt2", f} }},
	{"cvc5", func(f string, s int) []string {
		return []string{"cvc5", fmt.Sprintf("--tlimit=%d", s*1000), "--enum-inst", "--lang=smt2", f}
	}},
}

// at most this many solver processes run at a time (one per core, two cores left for the rest)
var solverSlots = make(chan struct{}, 14)

func runSolver(ctx context.Context, sp solverSpec, file string, secs int) SolverAnswer {
	select {
	case solverSlots <- struct{}{}:
		defer func() { <-solverSlots }()
	case <-ctx.Done():
		return SolverAnswer{Solver: sp.name, Result: "cancelled"}
	}
	t0 := time.Now()
	argv := sp.argv(file, secs)
	cctx, cancel := context.WithTimeout(ctx, time.Duration(secs+2)*time.Second)
	defer cancel()
	cmd := exec.CommandContext(cctx, argv[0], argv[1:]...)
	var out bytes.Buffer
	cmd.Stdout = &out
	cmd.Stderr = &out
	err := cmd.Run()
	ms := time.Since(t0).Milliseconds()
	txt := out.String()
	first := strings.TrimSpace(strings.SplitN(txt, "\n", 2)[0])
	res := "error"
	switch {
	case first == "unsat":
		res = "unsat"
	case first == "sat":
		res = "sat"
	case first == "unknown":
		res = "unknown"
	case first == "timeout" || strings.Contains(txt, "timeout") || cctx.Err() != nil:
		res = "timeout"
	case err != nil && ctx.Err() != nil:
		res = "cancelled"
	}
	if len(txt) > 4000 {
		txt = txt[:4000]
	}
	return SolverAnswer{Solver: sp.name, Result: res, Ms: ms, Output: txt}
}

// Solve races the solvers on one obligation (part by part when the goal is a conjunction of
// independent parts: one per return point / back edge).
func Solve(o *Obligation, workDir string, secs int, all bool) OblResult {
	if len(o.Parts) <= 1 || o.Cover {
		return solveOne(o, o.Goal, "", workDir, secs, all)
	}
	res := make([]OblResult, len(o.Parts))
	var wg sync.WaitGroup
	for i, p := range o.Parts {
		wg.Add(1)
		go func(i int, p string) {
			defer wg.Done()
			res[i] = solveOne(o, p, fmt.Sprintf(".part%d", i+1), workDir, secs, all)
		}(i, p)
	}
	wg.Wait()
	agg := res[0]
	for _, r := range res[1:] {
		agg.All = append(agg.All, r.All...)
		agg.Bytes += r.Bytes
		if r.Winner.Ms > agg.Winner.Ms {
			agg.Winner.Ms = r.Winner.Ms
		}
		if agg.Status == "discharged" && r.Status != "discharged" {
			st := r
			st.All = agg.All
			agg = st
		} else if agg.Status == "undischarged" && r.Status == "refuted" {
			st := r
			st.All = agg.All
			agg = st
		}
	}
	return agg
}

func solveOne(o *Obligation, goal, suffix, workDir string, secs int, all bool) OblResult {
	if o.Unit.Timeout > secs && !o.Cover {
		secs = o.Unit.Timeout
	}
	return solveOneTry(o, goal, suffix, workDir, secs, all, false)
}

func solveOneTry(o *Obligation, goal, suffix, workDir string, secs int, all bool, isRetry bool) OblResult {
	if o.Cover && secs > 3 {
		secs = 3
	}
	if o.Advisory {
		secs = 2
	}
	script := o.scriptFor(false, false, goal)
	file := filepath.Join(workDir, safeFile(o.Name)+suffix+".smt2")
	os.MkdirAll(workDir, 0o755)
	os.WriteFile(file, []byte(script), 0o644)
	r := OblResult{O: o, File: file, Bytes: len(script), Asserts: strings.Count(script, "(assert ")}
	ctx, cancel := context.WithCancel(context.Background())
	defer cancel()
	nruns := len(solvers)
	ch := make(chan SolverAnswer, 6*len(solvers)+2)
	// staged start: one solver per variant first (the combinations that win most often), the
	// remaining combinations only when nothing has answered after two seconds
	late := func(vi int, sp solverSpec) bool {
		first := map[int]string{0: "z3-new", 1: "z3", 2: "cvc5", 3: "z3-new", 4: "cvc5"}
		if !(o.HasInstanceVariant() || o.HasPlus()) || o.Cover || (all && vi == 0) {
			return false
		}
		return first[vi] != sp.name
	}
	wait := func(vi int, sp solverSpec) bool {
		if !late(vi, sp) {
			return true
		}
		select {
		case <-ctx.Done():
			return false
		case <-time.After(2 * time.Second):
			return true
		}
	}
	for _, sp := range solvers {
		go func(sp solverSpec) {
			if !wait(0, sp) {
				ch <- SolverAnswer{Solver: sp.name, Result: "cancelled"}
				return
			}
			ch <- runSolver(ctx, sp, file, secs)
		}(sp)
	}
	if (o.HasInstanceVariant() || o.HasPlus()) && !o.Cover {
		// further variants of the same obligation with fewer (or, for the "plus" ones, additional
		// goal-directed) assumptions; unsat on any of them discharges it
		type vt struct {
			v   int
			tag string
		}
		var vts []vt
		if o.HasInstanceVariant() {
			vts = append(vts, vt{1, ".light"}, vt{2, ".inst"})
		}
		if o.HasPlus() {
			vts = append(vts, vt{3, ".plus"}, vt{4, ".fullplus"})
		}
		for _, x := range vts {
			vi, tag := x.v, x.tag
			fileV := filepath.Join(workDir, safeFile(o.Name)+suffix+tag+".smt2")
			os.WriteFile(fileV, []byte(o.scriptV(false, vi, goal)), 0o644)
			nruns += len(solvers)
			for _, sp := range solvers {
				go func(sp solverSpec, fileV, tag string, vi int) {
					if !wait(vi, sp) {
						ch <- SolverAnswer{Solver: sp.name + "/" + tag[1:], Result: "cancelled"}
						return
					}
					a := runSolver(ctx, sp, fileV, secs)
					if a.Result == "sat" {
						a.Result = "unknown" // a model of a variant with other assumptions refutes nothing
					}
					a.Solver += "/" + tag[1:]
					ch <- a
				}(sp, fileV, tag, vi)
			}
		}
	}
	// case split on the most recent control-flow merges the goal depends on, started when the
	// plain race has not answered after a few seconds: the goal holds iff it holds under every
	// combination of the chosen branch conditions
	if !o.Cover {
		nruns++
		go func() {
			select {
			case <-ctx.Done():
				ch <- SolverAnswer{Solver: "split", Result: "cancelled"}
				return
			case <-time.After(time.Duration(min(3, secs)) * time.Second):
			}
			ch <- splitSolve(ctx, o, script, goal, file, secs)
		}()
	}
	var definitive *SolverAnswer
	// thorough tier (all): every solver's answer on the full variant is collected (cross-check);
	// the weaker variants are only there to find a proof and are cancelled once one exists and
	// the full-variant runs are in
	fullLeft := len(solvers)
	for i := 0; i < nruns; i++ {
		a := <-ch
		r.All = append(r.All, a)
		if !strings.Contains(a.Solver, "/") && !strings.HasPrefix(a.Solver, "split") {
			fullLeft--
		}
		if (a.Result == "sat" || a.Result == "unsat") && definitive == nil {
			aa := a
			definitive = &aa
			if !all {
				cancel()
				break
			}
		}
		if all && definitive != nil && fullLeft <= 0 {
			cancel()
			break
		}
	}
	if definitive == nil && !o.Cover && !isRetry {
		// nothing decisive: one more attempt with three times the limit (the first attempt may
		// have been starved by other obligations solved at the same time); unknown is never
		// turned into a violation by load alone
		cancel()
		rr := solveOneTry(o, goal, suffix, workDir, min(3*secs, 90), all, true)
		rr.All = append(r.All, rr.All...)
		return rr
	}
	if definitive != nil {
		r.Winner = *definitive
	}
	switch {
	case o.Cover:
		// expected sat; unsat means vacuous; unknown is tolerated (reported)
		if definitive != nil && definitive.Result == "unsat" {
			r.Status = "cover-vacuous"
		} else if definitive != nil {
			r.Status = "cover-ok"
		} else {
			r.Status = "cover-unknown"
		}
	case definitive == nil:
		r.Status = "undischarged"
	case definitive.Result == "unsat":
		r.Status = "discharged"
	default:
		r.Status = "refuted"
		// fetch a model from the winning solver
		mf := filepath.Join(workDir, safeFile(o.Name)+suffix+".model.smt2")
		os.WriteFile(mf, []byte(o.scriptFor(true, false, goal)), 0o644)
		for _, sp := range solvers {
			if sp.name == definitive.Solver {
				argv := sp.argv(mf, secs)
				if sp.name == "cvc5" {
					argv = append(argv[:len(argv)-1], "--produce-models", mf)
				}
				cctx, c2 := context.WithTimeout(context.Background(), time.Duration(secs+2)*time.Second)
				out, _ := exec.CommandContext(cctx, argv[0], argv[1:]...).CombinedOutput()
				c2()
				r.Model = string(out)
				if len(r.Model) > 200000 {
					r.Model = r.Model[:200000]
				}
			}
		}
	}
	return r
}

func safeFile(s string) string {
	r := strings.NewReplacer("/", "_", " ", "_", "*", "p", "(", "", ")", "", "[", "_", "]", "_", "$", "S", "#", "-", ":", "-")
	return r.Replace(s)
}

// SolveAll runs obligations with bounded parallelism.
func SolveAll(obls []*Obligation, workDir string, secs int, all bool, par int) []OblResult {
	res := make([]OblResult, len(obls))
	var wg sync.WaitGroup
	sem := make(chan struct{}, par)
	for i, o := range obls {
		wg.Add(1)
		sem <- struct{}{}
		go func(i int, o *Obligation) {
			defer wg.Done()
			defer func() { <-sem }()
			res[i] = Solve(o, workDir, secs, all)
		}(i, o)
	}
	wg.Wait()
	return res
}

var defineRe = regexp.MustCompile(`^\(define-fun (\S+) \(\) \S+ `)
var symRe = regexp.MustCompile(`[^\s()]+`)
var iteCondRe = regexp.MustCompile(`\(ite ([^\s()]+) `)

// splitConds finds the branch conditions (conditions of state merges) that the goal depends on,
// latest first.
func splitConds(script, goal string) []string {
	lines := strings.Split(script, "\n")
	def := map[string]int{}
	for i, l := range lines {
		if m := defineRe.FindStringSubmatch(l); m != nil {
			def[m[1]] = i
		}
	}
	seen := map[int]bool{}
	var work []string
	work = append(work, symRe.FindAllString(goal, -1)...)
	// the goal is asserted on the lines after the last declare: take the trailing asserts too
	for i := len(lines) - 1; i >= 0 && i > len(lines)-6; i-- {
		if strings.HasPrefix(lines[i], "(assert") {
			work = append(work, symRe.FindAllString(lines[i], -1)...)
		}
	}
	condLine := map[string]int{}
	for len(work) > 0 {
		w := work[len(work)-1]
		work = work[:len(work)-1]
		i, ok := def[w]
		if !ok || seen[i] {
			continue
		}
		seen[i] = true
		for _, m := range iteCondRe.FindAllStringSubmatch(lines[i], -1) {
			if _, isDef := def[m[1]]; isDef || strings.Contains(m[1], "!") {
				if old, ok := condLine[m[1]]; !ok || i > old {
					condLine[m[1]] = i
				}
			}
		}
		work = append(work, symRe.FindAllString(lines[i], -1)...)
	}
	var conds []string
	for c := range condLine {
		conds = append(conds, c)
	}
	sortSlice(conds, func(a, b string) bool {
		if condLine[a] != condLine[b] {
			return condLine[a] > condLine[b]
		}
		return a < b
	})
	return conds
}

func sortSlice(xs []string, less func(a, b string) bool) {
	for i := 1; i < len(xs); i++ {
		for j := i; j > 0 && less(xs[j], xs[j-1]); j-- {
			xs[j], xs[j-1] = xs[j-1], xs[j]
		}
	}
}

func splitSolve(ctx context.Context, o *Obligation, script, goal, file string, secs int) SolverAnswer {
	t0 := time.Now()
	conds := splitConds(script, goal)
	if len(conds) == 0 {
		return SolverAnswer{Solver: "split", Result: "unknown", Output: "no branch condition to split on"}
	}
	if len(conds) > 2 {
		conds = conds[:2]
	}
	scripts := []string{script}
	if o.HasInstanceVariant() {
		scripts = append(scripts, o.scriptV(false, 2, goal))
		if o.HasPlus() {
			scripts = append(scripts, o.scriptV(false, 3, goal), o.scriptV(false, 4, goal))
		}
	}
	n := 1 << len(conds)
	results := make([]string, n)
	var wg sync.WaitGroup
	for k := 0; k < n; k++ {
		wg.Add(1)
		go func(k int) {
			defer wg.Done()
			var extra strings.Builder
			for j, c := range conds {
				if k&(1<<j) != 0 {
					extra.WriteString("(assert " + c + ")\n")
				} else {
					extra.WriteString("(assert (not " + c + "))\n")
				}
			}
			cctx, cancel := context.WithCancel(ctx)
			defer cancel()
			ach := make(chan SolverAnswer, 8)
			cnt := 0
			for vi, sc := range scripts {
				idx := strings.LastIndex(sc, "(check-sat)")
				if idx < 0 {
					continue
				}
				f := fmt.Sprintf("%s.split%d_%d.smt2", strings.TrimSuffix(file, ".smt2"), k, vi)
				os.WriteFile(f, []byte(sc[:idx]+extra.String()+sc[idx:]), 0o644)
				for _, sp := range solvers {
					cnt++
					go func(sp solverSpec, f string) { ach <- runSolver(cctx, sp, f, secs) }(sp, f)
				}
			}
			results[k] = "unknown"
			for i := 0; i < cnt; i++ {
				a := <-ach
				if a.Result == "unsat" {
					results[k] = "unsat"
					cancel()
					break
				}
			}
		}(k)
	}
	wg.Wait()
	ans := SolverAnswer{Solver: "split(" + strings.Join(conds, ",") + ")", Result: "unsat", Ms: time.Since(t0).Milliseconds()}
	for _, r := range results {
		if r != "unsat" {
			ans.Result = "unknown"
		}
	}
	ans.Output = strings.Join(results, " ")
	return ans
}
