package vc

// Unit: one SMT script under construction (a function under contract, or a lemma),
// with lazily declared sorts, heap keys and obligations.

import (
	"os"
	"fmt"
	"go/types"

	"golang.org/x/tools/go/ssa"
	"sort"
	"strings"
)

type Obligation struct {
	Name     string
	Kind     string // pre, post, inv.init, inv.pres, safety.*, lemma, cover, ...
	Desc     string
	Pos      string
	Reach    string // Bool term: program point reachability (path condition)
	Goal     string // Bool term that must hold there
	Cover    bool   // vacuity guard: expected SAT of Reach ∧ Goal
	Unit     *Unit
	Props    []string
	FuncKey  string
	nLines   int      // the obligation sees the unit's script up to here: what is assumed later (e.g. the invariant of a loop entered afterwards) is not available to it
	Advisory bool     // a cover whose failure is reported as a note, not as a violation
	Extra    []string // extra assertions local to this obligation
	Parts    []string // when set: the goal is the conjunction of these; each part is solved separately
	Internal string   // if set the obligation could not be generated: reason (undecided)
}

type Unit struct {
	eng      *Engine
	Name     string // e.g. cluster.distributePoints
	FuncKey  string
	PkgPath  string
	mode     Mode
	contract *Contract

	lines     []string
	declared  map[string]bool
	keySort   map[string]string
	nfresh    int
	Obls      []*Obligation
	kindCount map[string]int
	Notes     map[string]bool // assumptions made while translating (havoc'd calls, ...)
	Undecided []string        // reasons why parts are outside the subset
	UndecidedGoals []string   // goal clauses (ensures) that could not be bound: only that clause is undecided
	specDone  map[string]*compiledSpec
	usesShift bool
	frames    int
	pkg       *types.Package
	checkOverflow bool
	safety    map[string]bool
	cellStatic map[string]Val
	hyps      []hyp
	ghostSyms []string
	globalInvs []GlobalInv
	strLits   map[string]string // literal constant symbol -> Go string
	extraCands []string
	trackCalls map[string]bool
	trackArgSets map[string]bool // "Name.i": the set of values argument i of calls to Name has taken is recorded (calledwitharg)
	argKeyType map[string]types.Type
	ghostBlock map[string]*ssa.BasicBlock
	quantHypLines map[int]bool // indices into lines: quantified loop-invariant assumptions
	typingLines map[int]bool // indices into lines: heap typing axioms
	frameInv  bool
	allowedRefs map[string][]string
	allowedWhole map[string]bool
	entryState *state
	structNames map[string]string
	structOwner map[string]string
	entryHeldReady bool
	pendingHeld []string
	entryHeld map[string][]string
	witnesses []string
	collectW  bool
	lateFrom    map[int]int     // script lines that obligations may use although emitted later (facts about a loop-header state established when the loop has been translated): line -> smallest script length at which an obligation may see it
	beforeSeen  map[string]bool // callees named in 'before' clauses that were actually met
	hypsV       []hyp     // assumed forallv (typed, unbounded) clauses
	keyCands    []keyCand // map keys mentioned while translating the current goal
	collectKeys bool
	skReuse   []string
	skPos     int
	freshRefs map[string]bool
	keyElem   map[string]types.Type // element type of heap keys (for heap typing axioms)
	Timeout   int
}

func newUnit(eng *Engine, name string, mode Mode) *Unit {
	u := &Unit{eng: eng, Name: name, mode: mode, declared: map[string]bool{}, keySort: map[string]string{}, kindCount: map[string]int{}, Notes: map[string]bool{}, specDone: map[string]*compiledSpec{}, trackCalls: map[string]bool{}, trackArgSets: map[string]bool{}, argKeyType: map[string]types.Type{}, quantHypLines: map[int]bool{}, typingLines: map[int]bool{}, entryHeld: map[string][]string{}, freshRefs: map[string]bool{}, keyElem: map[string]types.Type{}}
	u.safety = map[string]bool{"index": true, "slice": true, "div": true, "makelen": true, "typeassert": true, "overflow": !mode.BV, "nil": false, "panic": true, "shift": true}
	u.prelude()
	return u
}

func (u *Unit) emit(f string, a ...any) {
	if len(a) == 0 {
		u.lines = append(u.lines, f)
	} else {
		u.lines = append(u.lines, fmt.Sprintf(f, a...))
	}
}

func (u *Unit) fresh(hint string) string {
	u.nfresh++
	return q(fmt.Sprintf("%s!%d", sanitize(hint), u.nfresh))
}

func (u *Unit) note(f string, a ...any) { u.Notes[fmt.Sprintf(f, a...)] = true }

func (u *Unit) prelude() {
	I := u.mode.idxSort()
	B := u.byteSort()
	u.emit("(declare-datatypes ((Slc 0)) (((mk-slc (s_ref Int) (s_off %s) (s_len %s) (s_cap %s)))))", I, I, I)
	u.emit("(declare-datatypes ((Str 0)) (((mk-str (S_arr (Array %s %s)) (S_len %s)))))", I, B, I)
	u.emit("(declare-datatypes ((Ifc 0)) (((mk-ifc (i_tag Int) (i_pay Int)))))")
	u.emit("(declare-fun str_concat (Str Str) Str)")
}

func (u *Unit) byteSort() string { return u.mode.intSort(intInfo{8, false}) }

// declConst declares a fresh constant of the given sort and returns its name.
func (u *Unit) declConst(hint, sort string) string {
	n := u.fresh(hint)
	u.emit("(declare-const %s %s)", n, sort)
	return n
}

func (u *Unit) define(hint, sort, term string) string {
	n := u.fresh(hint)
	u.emit("(define-fun %s () %s %s)", n, sort, term)
	return n
}

func (u *Unit) assert(term string) { u.emit("(assert %s)", term) }

// ---------------------------------------------------------------- sorts

type unsupported struct{ msg string }

func (e unsupported) Error() string { return e.msg }

func unsupportedf(f string, a ...any) unsupported { return unsupported{fmt.Sprintf(f, a...)} }

func typeKey(t types.Type) string {
	return types.TypeString(t, func(p *types.Package) string { return p.Path() })
}

func shortTypeName(t types.Type) string {
	return types.TypeString(t, func(p *types.Package) string { return p.Name() })
}

// sortOf returns the SMT sort of a Go type, declaring datatypes on demand.
func (u *Unit) sortOf(t types.Type) string {
	switch tt := t.(type) {
	case *types.Named, *types.Alias:
		if st, ok := t.Underlying().(*types.Struct); ok {
			return u.structSort(t, st)
		}
		return u.sortOf(t.Underlying())
	case *types.Basic:
		if ii, ok := basicIntInfo(tt); ok {
			return u.mode.intSort(ii)
		}
		if fb, ok := isFloat(tt); ok {
			return u.mode.floatSort(fb)
		}
		if isString(tt) {
			return "Str"
		}
		if isBool(tt) {
			return "Bool"
		}
		if tt.Kind() == types.UnsafePointer || tt.Kind() == types.UntypedNil {
			return "Int"
		}
		if tt.Kind() == types.Complex128 || tt.Kind() == types.Complex64 {
			return "Int"
		}
		return "Int"
	case *types.Slice:
		return "Slc"
	case *types.Array:
		return fmt.Sprintf("(Array %s %s)", u.mode.idxSort(), u.sortOf(tt.Elem()))
	case *types.Struct:
		return u.structSort(t, tt)
	case *types.Pointer, *types.Map, *types.Chan, *types.Signature:
		return "Int"
	case *types.Interface:
		return "Ifc"
	case *types.Tuple:
		panic(unsupportedf("tuple sort requested"))
	case *types.TypeParam:
		panic(unsupportedf("type parameter %s (generic origin bodies are not verified; instances are)", tt))
	}
	panic(unsupportedf("no sort for type %s", t))
}

func (u *Unit) structName(t types.Type) string {
	name := "S_" + sanitize(shortTypeName(t))
	key := typeKey(t)
	if u.structNames == nil {
		u.structNames = map[string]string{}
		u.structOwner = map[string]string{}
	}
	if n, ok := u.structNames[key]; ok {
		return n
	}
	base := name
	for i := 2; ; i++ {
		if owner, taken := u.structOwner[name]; !taken || owner == key {
			break
		}
		name = fmt.Sprintf("%s~%d", base, i)
	}
	u.structNames[key] = name
	u.structOwner[name] = key
	return name
}

func (u *Unit) structSort(t types.Type, st *types.Struct) string {
	name := q(u.structName(t))
	key := "sort:" + typeKey(t)
	if u.declared[key] {
		return name
	}
	u.declared[key] = true
	var fs []string
	for i := 0; i < st.NumFields(); i++ {
		fs = append(fs, fmt.Sprintf("(%s %s)", u.fieldSel(t, i), u.sortOf(st.Field(i).Type())))
	}
	if len(fs) == 0 {
		u.emit("(declare-datatypes ((%s 0)) (((%s))))", name, u.structCtor(t))
	} else {
		u.emit("(declare-datatypes ((%s 0)) (((%s %s))))", name, u.structCtor(t), strings.Join(fs, " "))
	}
	return name
}

func (u *Unit) structCtor(t types.Type) string { return q("mk-" + u.structName(t)) }
func (u *Unit) fieldSel(t types.Type, i int) string {
	st := t.Underlying().(*types.Struct)
	name := st.Field(i).Name()
	if name == "_" {
		name = fmt.Sprintf("_%d", i)
	}
	return q(fmt.Sprintf("%s.%s", u.structName(t), name))
}

// zero value of a type
func (u *Unit) zero(t types.Type) string {
	switch tt := t.Underlying().(type) {
	case *types.Basic:
		if ii, ok := basicIntInfo(tt); ok {
			return u.mode.intLit(bigZero, ii)
		}
		if fb, ok := isFloat(tt); ok {
			if u.mode.FPOrder {
				return "0.0"
			}
			if fb == 32 {
				return "(_ +zero 8 24)"
			}
			return "(_ +zero 11 53)"
		}
		if isString(tt) {
			return fmt.Sprintf("(mk-str ((as const (Array %s %s)) %s) %s)", u.mode.idxSort(), u.byteSort(), u.mode.intLit(bigZero, intInfo{8, false}), u.mode.idxLit(0))
		}
		if isBool(tt) {
			return "false"
		}
		return "0"
	case *types.Slice:
		z := u.mode.idxLit(0)
		return fmt.Sprintf("(mk-slc 0 %s %s %s)", z, z, z)
	case *types.Array:
		return fmt.Sprintf("((as const %s) %s)", u.sortOf(t), u.zero(tt.Elem()))
	case *types.Struct:
		u.sortOf(t)
		if tt.NumFields() == 0 {
			return u.structCtor(t)
		}
		var fs []string
		for i := 0; i < tt.NumFields(); i++ {
			fs = append(fs, u.zero(tt.Field(i).Type()))
		}
		return "(" + u.structCtor(t) + " " + strings.Join(fs, " ") + ")"
	case *types.Pointer, *types.Map, *types.Chan, *types.Signature:
		return "0"
	case *types.Interface:
		return "(mk-ifc 0 0)"
	}
	panic(unsupportedf("no zero value for %s", t))
}

// typeInvariant returns a Bool term stating the representation invariant of a value
// of type t (integer machine range in int mode, slice well-formedness, ...), or "".
func (u *Unit) typeInvariant(term string, t types.Type, depth int) string {
	switch tt := t.Underlying().(type) {
	case *types.Basic:
		if ii, ok := basicIntInfo(tt); ok && !u.mode.BV {
			return u.mode.inRange(term, ii)
		}
		if isString(tt) {
			return u.lenBound("(S_len " + term + ")")
		}
	case *types.Slice:
		m := u.mode
		z := m.idxLit(0)
		return fmt.Sprintf("(and (>= (s_ref %s) 0) %s %s %s %s (=> (= (s_ref %s) 0) (= (s_cap %s) %s)))", term,
			m.cmp("<=", z, "(s_off "+term+")", true),
			m.cmp("<=", "(s_len "+term+")", "(s_cap "+term+")", true),
			u.lenBound("(s_len "+term+")"), u.lenBound("(s_cap "+term+")")+" "+u.lenBound("(s_off "+term+")"),
			term, term, z)
	case *types.Struct:
		if depth > 2 {
			return ""
		}
		var cs []string
		for i := 0; i < tt.NumFields(); i++ {
			c := u.typeInvariant("("+u.fieldSel(t, i)+" "+term+")", tt.Field(i).Type(), depth+1)
			if c != "" {
				cs = append(cs, c)
			}
		}
		if len(cs) > 0 {
			u.sortOf(t)
			return "(and " + strings.Join(cs, " ") + ")"
		}
	case *types.Pointer, *types.Map, *types.Chan, *types.Signature:
		return "(>= " + term + " 0)"
	}
	return ""
}

// lenBound: 0 <= n < 2^40 (physical bound on lengths: an assumption, listed in evidence)
func (u *Unit) lenBound(n string) string {
	m := u.mode
	return fmt.Sprintf("(and %s %s)", m.cmp("<=", m.idxLit(0), n, true), m.cmp("<", n, m.idxLit(1<<40), true))
}

// ---------------------------------------------------------------- heap keys

func (u *Unit) regKey(key, sort string) string {
	if old, ok := u.keySort[key]; ok && old != sort {
		panic(fmt.Sprintf("heap key %s registered with two sorts: %s vs %s", key, old, sort))
	}
	u.keySort[key] = sort
	return key
}

func (u *Unit) keyField(t types.Type, i int) string {
	st := t.Underlying().(*types.Struct)
	u.keyElem[fmt.Sprintf("H.%s.%s", shortTypeName(t), st.Field(i).Name())] = st.Field(i).Type()
	return u.regKey(fmt.Sprintf("H.%s.%s", shortTypeName(t), st.Field(i).Name()), "(Array Int "+u.sortOf(st.Field(i).Type())+")")
}

func (u *Unit) keyM(elem types.Type) string {
	es := u.sortOf(elem)
	name := es
	if _, ok := elem.Underlying().(*types.Struct); ok {
		name = shortTypeName(elem)
	} else if b, ok := elem.Underlying().(*types.Basic); ok {
		name = b.Name()
		if b.Kind() == types.Uint8 {
			name = "byte"
		}
	} else {
		name = shortTypeName(elem)
	}
	u.keyElem["M."+name] = elem
	return u.regKey("M."+name, fmt.Sprintf("(Array Int (Array %s %s))", u.mode.idxSort(), es))
}

func (u *Unit) keyCell(t types.Type) string {
	u.keyElem["C."+shortTypeName(t)] = t
	return u.regKey("C."+shortTypeName(t), "(Array Int "+u.sortOf(t)+")")
}

func (u *Unit) keyGlobal(name string, t types.Type) string {
	return u.regKey("G."+name, u.sortOf(t))
}

func (u *Unit) keyMapDom(m *types.Map) string {
	return u.regKey("MapDom."+shortTypeName(m.Key())+"."+shortTypeName(m.Elem()), "(Array Int (Array "+u.sortOf(m.Key())+" Bool))")
}
func (u *Unit) keyMapVal(m *types.Map) string {
	u.keyElem["MapVal."+shortTypeName(m.Key())+"."+shortTypeName(m.Elem())] = m.Elem()
	return u.regKey("MapVal."+shortTypeName(m.Key())+"."+shortTypeName(m.Elem()), "(Array Int (Array "+u.sortOf(m.Key())+" "+u.sortOf(m.Elem())+"))")
}
func (u *Unit) keyMapLen() string { return u.regKey("MapLen", "(Array Int Int)") }

const allocKey = "$alloc"

// ---------------------------------------------------------------- obligations

func (u *Unit) addObl(kind, desc, pos, reach, goal string) *Obligation {
	u.kindCount[kind]++
	o := &Obligation{Name: fmt.Sprintf("%s#%s:%d", u.Name, kind, u.kindCount[kind]), Kind: kind, Desc: desc, Pos: pos, Reach: reach, Goal: goal, Unit: u, FuncKey: u.FuncKey, nLines: len(u.lines)}
	if u.contract != nil {
		o.Props = u.contract.Props
	}
	u.Obls = append(u.Obls, o)
	return o
}

// Script renders the SMT-LIB text for one obligation.
func (o *Obligation) Script(withModel bool) string { return o.ScriptVariant(withModel, false) }

// HasInstanceVariant: the obligation carries hypothesis instances, so a variant without the
// quantified loop-invariant assumptions (a subset of the assumptions: sound) is worth trying.
func (o *Obligation) HasInstanceVariant() bool {
	return (len(o.Unit.quantHypLines) > 0 || len(o.Unit.typingLines) > 0) && !o.Cover
}

func (o *Obligation) ScriptVariant(withModel, instancesOnly bool) string {
	return o.scriptFor(withModel, instancesOnly, o.Goal)
}

func (o *Obligation) scriptFor(withModel, instancesOnly bool, goal string) string {
	v := 0
	if instancesOnly {
		v = 2
	}
	return o.scriptV(withModel, v, goal)
}

// scriptV: variant 0 = all assumptions; 1 = without the heap typing axioms; 2 = additionally
// without the quantified invariant / callee-post assumptions (their instances at the goal's
// skolem constants stay). Variants 1 and 2 assume less, so their unsat answers are as good.
func (o *Obligation) scriptV(withModel bool, variant int, goal string) string {
	// variants: 0 full, 1 light (no heap typing axioms), 2 inst (no typing, quantified hypotheses
	// replaced by their instances), 3 inst + the additional instance set (neighbour points, map
	// keys), 4 full + the additional instance set
	instancesOnly := variant == 2 || variant == 3
	dropTyping := variant >= 1 && variant <= 3
	plus := variant >= 3
	var sb strings.Builder
	sb.WriteString("; obligation " + o.Name + "\n; " + o.Desc + "\n; at " + o.Pos + "\n")
	if withModel {
		sb.WriteString("(set-option :produce-models true)\n")
	}
	sb.WriteString("(set-logic ALL)\n")
	for i, l := range o.Unit.lines {
		if i >= o.nLines && strings.HasPrefix(l, "(assert") {
			// assumptions made after this obligation was generated are not available to it, except
			// the facts about the header state of a loop it lies in (declarations and definitions
			// are always kept: they assume nothing)
			if from, ok := o.Unit.lateFrom[i]; !ok || o.nLines < from {
				continue
			}
		}
		if instancesOnly && o.Unit.quantHypLines[i] {
			continue
		}
		if dropTyping && o.Unit.typingLines[i] {
			continue
		}
		sb.WriteString(l)
		sb.WriteByte('\n')
	}
	for _, l := range o.Extra {
		if strings.HasPrefix(l, plusMark) {
			if !plus {
				continue
			}
			l = l[len(plusMark):]
		}
		sb.WriteString(l)
		sb.WriteByte('\n')
	}
	if o.Cover {
		fmt.Fprintf(&sb, "(assert %s)\n(assert %s)\n", o.Reach, goal)
	} else {
		fmt.Fprintf(&sb, "(assert %s)\n(assert (not %s))\n", o.Reach, goal)
	}
	sb.WriteString("(check-sat)\n")
	if withModel {
		sb.WriteString("(get-model)\n")
	}
	return sb.String()
}

func sortedKeys[V any](m map[string]V) []string {
	var ks []string
	for k := range m {
		ks = append(ks, k)
	}
	sort.Strings(ks)
	return ks
}

// heapTyping asserts that every value stored under a heap constant satisfies the
// representation invariant of its Go type (well-typed heap).
func (u *Unit) heapTyping(key, c string) { u.heapTypingA(key, c, "") }

// refTermsOf: the references held in a value of type t (the value itself, or the reference-typed
// fields of a struct value, nested structs included)
func (u *Unit) refTermsOf(term string, t types.Type, depth int) []string {
	if isRefLike(t) {
		return []string{refOf(term, t)}
	}
	if st, ok := t.Underlying().(*types.Struct); ok && depth < 3 && os.Getenv("GOVC_NO_STRUCTALLOC") == "" {
		if _, isIfc := t.Underlying().(*types.Interface); isIfc {
			return nil
		}
		var out []string
		for i := 0; i < st.NumFields(); i++ {
			out = append(out, u.refTermsOf("("+u.fieldSel(t, i)+" "+term+")", st.Field(i).Type(), depth+1)...)
		}
		return out
	}
	return nil
}

// heapTypingA: with allocBound != "", references stored in the heap constant also point to
// objects that exist (are not above the allocation counter of that state).
func (u *Unit) heapTypingA(key, c, allocBound string) {
	et, ok := u.keyElem[key]
	if !ok {
		return
	}
	if allocBound != "" {
		bound := func(el string) string {
			var parts []string
			for _, rt := range u.refTermsOf(el, et, 0) {
				parts = append(parts, "(<= "+rt+" "+allocBound+")")
			}
			if len(parts) == 0 {
				return ""
			}
			if len(parts) == 1 {
				return parts[0]
			}
			return "(and " + strings.Join(parts, " ") + ")"
		}
		switch {
		case strings.HasPrefix(key, "M."):
			el := "(select (select " + c + " r) i)"
			if b := bound(el); b != "" {
				u.emit("(assert (forall ((r Int) (i %s)) (! %s :pattern (%s))))", u.mode.idxSort(), b, el)
				u.typingLines[len(u.lines)-1] = true
			}
		case strings.HasPrefix(key, "H."), strings.HasPrefix(key, "C."):
			el := "(select " + c + " r)"
			if b := bound(el); b != "" {
				u.emit("(assert (forall ((r Int)) (! %s :pattern (%s))))", b, el)
				u.typingLines[len(u.lines)-1] = true
			}
		case strings.HasPrefix(key, "MapVal."):
			// values stored in maps (the array is total: entries of absent keys are never observed)
			srt := u.keySort[key]
			if strings.HasPrefix(srt, "(Array Int (Array ") {
				rest := strings.TrimPrefix(srt, "(Array Int (Array ")
				// key sort: up to the value sort, which is the last token group; take by balanced scan
				ks := firstSort(rest)
				el := "(select (select " + c + " r) k!m)"
				if b := bound(el); b != "" && ks != "" {
					u.emit("(assert (forall ((r Int) (k!m %s)) (! %s :pattern (%s))))", ks, b, el)
					u.typingLines[len(u.lines)-1] = true
				}
			}
		}
	}
	I := u.mode.idxSort()
	switch {
	case strings.HasPrefix(key, "M."):
		el := "(select (select " + c + " r) i)"
		if ti := u.typeInvariant(el, et, 0); ti != "" {
			u.emit("(assert (forall ((r Int) (i %s)) (! %s :pattern (%s))))", I, ti, el)
			u.typingLines[len(u.lines)-1] = true // optional fact: left out of the light variants
		}
	case strings.HasPrefix(key, "H."), strings.HasPrefix(key, "C."):
		el := "(select " + c + " r)"
		if ti := u.typeInvariant(el, et, 0); ti != "" {
			u.emit("(assert (forall ((r Int)) (! %s :pattern (%s))))", ti, el)
			u.typingLines[len(u.lines)-1] = true
		}
	}
}

// strEq: Go string equality. Against a short literal it is spelled out (length and characters);
// otherwise strings are compared structurally (strings are assumed to be in canonical form).
func (u *Unit) strEq(a, b string) string {
	lit, other := "", ""
	if s, ok := u.strLits[a]; ok {
		lit, other = s, b
	} else if s, ok := u.strLits[b]; ok {
		lit, other = s, a
	} else {
		return "(= " + a + " " + b + ")"
	}
	if len(lit) > 16 {
		return "(= " + a + " " + b + ")"
	}
	m := u.mode
	parts := []string{fmt.Sprintf("(= (S_len %s) %s)", other, m.idxLit(int64(len(lit))))}
	for i := 0; i < len(lit); i++ {
		parts = append(parts, fmt.Sprintf("(= (select (S_arr %s) %s) %s)", other, m.idxLit(int64(i)), m.intLit(bigInt(int64(lit[i])), intInfo{8, false})))
	}
	return "(and " + strings.Join(parts, " ") + ")"
}

// keyCand: a term used as a map key in a goal; typed universal hypotheses are instantiated there
type keyCand struct {
	typ  types.Type
	term string
}

// plusMark prefixes the extra assertions that only the "plus" variants of an obligation use
const plusMark = "\x01"

func (o *Obligation) HasPlus() bool {
	for _, l := range o.Extra {
		if strings.HasPrefix(l, plusMark) {
			return true
		}
	}
	return false
}

// firstSort returns the first complete sort expression at the start of s
func firstSort(s string) string {
	s = strings.TrimSpace(s)
	if s == "" {
		return ""
	}
	if s[0] != '(' {
		if i := strings.IndexAny(s, " )"); i >= 0 {
			return s[:i]
		}
		return s
	}
	depth := 0
	for i := 0; i < len(s); i++ {
		switch s[i] {
		case '(':
			depth++
		case ')':
			depth--
			if depth == 0 {
				return s[:i+1]
			}
		}
	}
	return ""
}
