package vc

// Engine: loads /repo (current working tree, build tag verif), builds SSA,
// collects the contracts and indexes functions.

import (
	"fmt"
	"go/ast"
	goparser "go/parser"
	"go/token"
	"go/types"
	"os"
	"path/filepath"
	"sort"
	"strings"
	"time"

	"golang.org/x/tools/go/packages"
	"golang.org/x/tools/go/ssa"
	"golang.org/x/tools/go/ssa/ssautil"
)

type Engine struct {
	RepoDir  string
	Fset     *token.FileSet
	Pkgs     []*packages.Package
	Prog     *ssa.Program
	Funcs    map[string]*ssa.Function // key: pkgpath::RelString  and full String()
	CS       *ContractSet
	typeIDs  map[string]int
	PkgByPath map[string]*packages.Package
	LoadSecs float64
	ModPath  string
}

func Load(repoDir, externDir string, patterns []string) (*Engine, error) {
	t0 := time.Now()
	os.Setenv("PATH", "/opt/veriftools/go1.26.8/bin:"+os.Getenv("PATH"))
	cfg := &packages.Config{
		Mode:       packages.LoadAllSyntax | packages.NeedModule,
		Dir:        repoDir,
		BuildFlags: []string{"-tags=verif"},
		Env:        append(os.Environ(), "PATH=/opt/veriftools/go1.26.8/bin:"+os.Getenv("PATH"), "GOFLAGS=-mod=mod", "GOPROXY=off", "GOSUMDB=off", "GOTOOLCHAIN=local"),
	}
	pkgs, err := packages.Load(cfg, patterns...)
	if err != nil {
		return nil, err
	}
	e := &Engine{RepoDir: repoDir, Pkgs: pkgs, Funcs: map[string]*ssa.Function{}, CS: NewContractSet(), typeIDs: map[string]int{}, PkgByPath: map[string]*packages.Package{}}
	var loadErrs []string
	packages.Visit(pkgs, nil, func(p *packages.Package) {
		e.PkgByPath[p.PkgPath] = p
		for _, er := range p.Errors {
			// cgo-only package internal/loadhdf5 cannot be type-checked here; irrelevant
			if strings.Contains(p.PkgPath, "loadhdf5") || strings.Contains(p.PkgPath, "gonum.org/v1/hdf5") {
				continue
			}
			loadErrs = append(loadErrs, er.Error())
		}
	})
	if len(loadErrs) > 0 {
		return nil, fmt.Errorf("load errors: %s", strings.Join(loadErrs, "; "))
	}
	if len(pkgs) > 0 {
		e.Fset = pkgs[0].Fset
		if pkgs[0].Module != nil {
			e.ModPath = pkgs[0].Module.Path
		}
	}
	prog, _ := ssautil.AllPackages(pkgs, ssa.InstantiateGenerics|ssa.GlobalDebug)
	prog.Build()
	e.Prog = prog
	for fn := range ssautil.AllFunctions(prog) {
		if fn.Pkg == nil && fn.Origin() == nil {
			// synthetic wrappers etc.
			if fn.Synthetic != "" && fn.Parent() == nil {
				e.Funcs["::"+fn.String()] = fn
			}
			continue
		}
		e.index(fn)
	}
	// methods of all named types of the repository packages
	for _, sp := range prog.AllPackages() {
		if e.ModPath == "" || !strings.HasPrefix(sp.Pkg.Path(), e.ModPath) {
			continue
		}
		for _, mem := range sp.Members {
			tn, ok := mem.(*ssa.Type)
			if !ok {
				continue
			}
			if named, ok := tn.Type().(*types.Named); ok && named.TypeParams().Len() > 0 {
				continue
			}
			for _, t := range []types.Type{tn.Type(), types.NewPointer(tn.Type())} {
				ms := prog.MethodSets.MethodSet(t)
				for i := 0; i < ms.Len(); i++ {
					if fn := prog.MethodValue(ms.At(i)); fn != nil && fn.Synthetic == "" {
						if _, dup := e.Funcs["::"+fn.String()]; !dup {
							e.index(fn)
						}
					}
				}
			}
		}
	}
	// contracts from the tagged comment-only files
	for _, p := range pkgs {
		for i, f := range p.Syntax {
			name := p.CompiledGoFiles[i]
			if !strings.HasSuffix(name, "_verif.go") {
				continue
			}
			var sb strings.Builder
			// keep line numbers: rebuild a text with comment lines at their original lines
			src, err := os.ReadFile(name)
			if err != nil {
				return nil, err
			}
			sb.Write(src)
			_ = f
			e.CS.ParseContractText(relPath(repoDir, name), p.PkgPath, p.Name, sb.String())
		}
	}
	e.CS.LoadExternSpecs(externDir)
	e.LoadSecs = time.Since(t0).Seconds()
	return e, nil
}

func relPath(base, p string) string {
	if r, err := filepath.Rel(base, p); err == nil {
		return r
	}
	return p
}

func fnPkg(fn *ssa.Function) *ssa.Package {
	if fn.Pkg != nil {
		return fn.Pkg
	}
	if o := fn.Origin(); o != nil && o.Pkg != nil {
		return o.Pkg
	}
	if p := fn.Parent(); p != nil {
		return fnPkg(p)
	}
	return nil
}

func (e *Engine) index(fn *ssa.Function) {
	pkg := fnPkg(fn)
	if pkg == nil {
		return
	}
	rel := fn.RelString(pkg.Pkg)
	e.Funcs[pkg.Pkg.Path()+"::"+rel] = fn
	e.Funcs["::"+fn.String()] = fn
}

// FuncKeyOf returns (pkgpath, relative name) of a function.
func (e *Engine) FuncKeyOf(fn *ssa.Function) (string, string) {
	pkg := fnPkg(fn)
	if pkg == nil {
		return "", fn.String()
	}
	return pkg.Pkg.Path(), fn.RelString(pkg.Pkg)
}

// ContractFor finds the contract of a function: first in its own package's contract
// file, then in the extern specs by full name.
func (e *Engine) ContractFor(fn *ssa.Function) *Contract {
	pp, rel := e.FuncKeyOf(fn)
	if c, ok := e.CS.Funcs[pp+"::"+rel]; ok {
		return c
	}
	if c, ok := e.CS.Funcs["::"+fn.String()]; ok {
		return c
	}
	// extern specs may use pkgpath.Rel form
	if c, ok := e.CS.Funcs["::"+pp+"."+rel]; ok {
		return c
	}
	// a method without a contract of its own that implements an interface method whose contract
	// is declared to stand for its implementations (matched by name and parameter count)
	if fn.Signature.Recv() != nil && fn.Parent() == nil {
		for k, c := range e.CS.Funcs {
			if !c.Implementations || !strings.HasSuffix(k, ")."+fn.Name()) {
				continue
			}
			if c.ImplParams == 0 || c.ImplParams == fn.Signature.Params().Len()+1 {
				if e.inRepo(fn) {
					return c
				}
			}
		}
	}
	// instance of a generic function: the contract is written once, without type arguments
	if len(fn.TypeArgs()) > 0 || (fn.Parent() != nil && strings.Contains(rel, "[")) {
		if c, ok := e.CS.Funcs[pp+"::"+stripTypeArgs(rel)]; ok {
			return c
		}
	}
	return nil
}

// stripTypeArgs removes the type argument lists from a function name:
// (*ItemCache[uint64,*pkg.T]).ForEach$1 -> (*ItemCache).ForEach$1
func stripTypeArgs(s string) string {
	var b strings.Builder
	depth := 0
	for i := 0; i < len(s); i++ {
		ch := s[i]
		switch {
		case ch == '[' && (depth > 0 || (i > 0 && isIdentByte(s[i-1]))):
			depth++
		case ch == ']' && depth > 0:
			depth--
		case depth == 0:
			b.WriteByte(ch)
		}
	}
	return b.String()
}

func isIdentByte(c byte) bool {
	return c == '_' || c >= '0' && c <= '9' || c >= 'a' && c <= 'z' || c >= 'A' && c <= 'Z'
}

func (e *Engine) typeID(t types.Type) int {
	k := typeKey(t)
	if id, ok := e.typeIDs[k]; ok {
		return id
	}
	id := len(e.typeIDs) + 1
	e.typeIDs[k] = id
	return id
}

func (e *Engine) pos(p token.Pos) string {
	if !p.IsValid() {
		return "-"
	}
	ps := e.Fset.Position(p)
	return fmt.Sprintf("%s:%d", relPath(e.RepoDir, ps.Filename), ps.Line)
}

func (e *Engine) inRepo(fn *ssa.Function) bool {
	pkg := fnPkg(fn)
	return pkg != nil && e.ModPath != "" && strings.HasPrefix(pkg.Pkg.Path(), e.ModPath)
}

// ResolveType evaluates a Go type expression in the scope of a package ("" = universe);
// qualified names are resolved through the package's imports (by package name).
func (e *Engine) ResolveType(pkgPath, expr string) (types.Type, error) {
	x, err := goparser.ParseExpr(expr)
	if err != nil {
		return nil, fmt.Errorf("cannot parse type %q: %v", expr, err)
	}
	var pkg *packages.Package
	if p, ok := e.PkgByPath[pkgPath]; ok {
		pkg = p
	}
	var conv func(x ast.Expr) (types.Type, error)
	conv = func(x ast.Expr) (types.Type, error) {
		switch n := x.(type) {
		case *ast.Ident:
			if pkg != nil {
				if o := pkg.Types.Scope().Lookup(n.Name); o != nil {
					if tn, ok := o.(*types.TypeName); ok {
						return tn.Type(), nil
					}
				}
			}
			if o := types.Universe.Lookup(n.Name); o != nil {
				if tn, ok := o.(*types.TypeName); ok {
					return tn.Type(), nil
				}
			}
			return nil, fmt.Errorf("unknown type %s", n.Name)
		case *ast.SelectorExpr:
			id, ok := n.X.(*ast.Ident)
			if !ok {
				return nil, fmt.Errorf("bad qualified type")
			}
			var cands []*packages.Package
			if pkg != nil {
				for _, ip := range pkg.Imports {
					cands = append(cands, ip)
				}
			} else {
				for _, ip := range e.PkgByPath {
					cands = append(cands, ip)
				}
			}
			for round := 0; round < 2; round++ {
				for _, ip := range cands {
					if ip.Name == id.Name && ip.Types != nil {
						if o := ip.Types.Scope().Lookup(n.Sel.Name); o != nil {
							if tn, ok := o.(*types.TypeName); ok {
								return tn.Type(), nil
							}
						}
					}
				}
				// not among the imports of the contract's package: any repository package of that name
				cands = nil
				for pp, ip := range e.PkgByPath {
					if e.ModPath != "" && strings.HasPrefix(pp, e.ModPath) {
						cands = append(cands, ip)
					}
				}
				sort.Slice(cands, func(i, j int) bool { return cands[i].PkgPath < cands[j].PkgPath })
			}
			return nil, fmt.Errorf("unknown type %s.%s", id.Name, n.Sel.Name)
		case *ast.ArrayType:
			el, err := conv(n.Elt)
			if err != nil {
				return nil, err
			}
			if n.Len == nil {
				return types.NewSlice(el), nil
			}
			if bl, ok := n.Len.(*ast.BasicLit); ok {
				var k int64
				fmt.Sscan(bl.Value, &k)
				return types.NewArray(el, k), nil
			}
			return nil, fmt.Errorf("array length must be a literal")
		case *ast.StarExpr:
			el, err := conv(n.X)
			if err != nil {
				return nil, err
			}
			return types.NewPointer(el), nil
		case *ast.MapType:
			k, err := conv(n.Key)
			if err != nil {
				return nil, err
			}
			v, err := conv(n.Value)
			if err != nil {
				return nil, err
			}
			return types.NewMap(k, v), nil
		case *ast.ParenExpr:
			return conv(n.X)
		}
		return nil, fmt.Errorf("unsupported type expression %q", expr)
	}
	return conv(x)
}

// ContractedFunctions lists contracts with the functions they bind to (sorted), plus binding errors.
type Bound struct {
	C  *Contract
	Fn *ssa.Function
}

func (e *Engine) Bind() (bound []Bound, unbound []*Contract) {
	keys := sortedKeys(e.CS.Funcs)
	for _, k := range keys {
		c := e.CS.Funcs[k]
		var fn *ssa.Function
		if c.PkgPath != "" {
			fn = e.Funcs[c.PkgPath+"::"+c.Key]
		} else {
			fn = e.Funcs["::"+c.Key]
		}
		if fn != nil && fn.TypeParams().Len() > 0 && len(fn.TypeArgs()) == 0 {
			fn = nil // the generic origin itself is not a verification unit: its instances are
		}
		if fn == nil {
			// a contract on a generic function or method binds to every instantiation
			var inst []*ssa.Function
			for fk, f := range e.Funcs {
				if f.Origin() == nil || len(f.TypeArgs()) == 0 || !strings.HasPrefix(fk, c.PkgPath+"::") || c.PkgPath == "" {
					continue
				}
				if hasTypeParamArg(f.TypeArgs()) {
					// an "instance" mentioned inside another generic body (type arguments are
					// themselves type parameters): not executable code, nothing to verify
					continue
				}
				if stripTypeArgs(strings.TrimPrefix(fk, c.PkgPath+"::")) == c.Key {
					inst = append(inst, f)
				}
			}
			if len(inst) == 0 {
				unbound = append(unbound, c)
				continue
			}
			sort.Slice(inst, func(i, j int) bool { return inst[i].String() < inst[j].String() })
			for _, f := range inst {
				bound = append(bound, Bound{c, f})
			}
			continue
		}
		bound = append(bound, Bound{c, fn})
	}
	sort.SliceStable(bound, func(i, j int) bool { return bound[i].C.PkgPath+bound[i].C.Key < bound[j].C.PkgPath+bound[j].C.Key })
	return
}

var _ = ast.Inspect

func hasTypeParamArg(targs []types.Type) bool {
	var has func(t types.Type, depth int) bool
	has = func(t types.Type, depth int) bool {
		if depth > 6 {
			return false
		}
		switch x := t.(type) {
		case *types.TypeParam:
			return true
		case *types.Pointer:
			return has(x.Elem(), depth+1)
		case *types.Slice:
			return has(x.Elem(), depth+1)
		case *types.Array:
			return has(x.Elem(), depth+1)
		case *types.Map:
			return has(x.Key(), depth+1) || has(x.Elem(), depth+1)
		case *types.Named:
			if ta := x.TypeArgs(); ta != nil {
				for i := 0; i < ta.Len(); i++ {
					if has(ta.At(i), depth+1) {
						return true
					}
				}
			}
		}
		return false
	}
	for _, t := range targs {
		if has(t, 0) {
			return true
		}
	}
	return false
}
