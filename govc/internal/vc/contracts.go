package vc

// Contract files: Gobra-style structured comments ("//@ ...") in comment-only Go files
// guarded by the build tag `verif` inside /repo, and in /verif/extern/*.spec for
// assumed contracts of external libraries.

import (
	"fmt"
	"os"
	"path/filepath"
	"sort"
	"strconv"
	"strings"
)

type Clause struct {
	Src  string
	E    Expr
	File string
	Line int
}

type LoopSpec struct {
	Invariants []Clause
}

type Param struct {
	Name string
	Type string
}

type Contract struct {
	Key      string // function name as printed relative to its package, or full name for externs
	PkgPath  string // package the contract file belongs to ("" for extern files)
	File     string
	Line     int
	Props    []string
	Arith    string // "int" (default) or "bv"
	Floats   string // "fp" (default) or "order"
	Requires []Clause
	Ensures  []Clause
	Asserts  map[int][]Clause // by call ordinal? (unused for now)
	Modifies []string
	HasMod   bool
	Loops    map[int]*LoopSpec
	Inline   bool            // callers inline the body instead of using the contract
	Trusted  bool            // contract is assumed, body is not verified
	Safety   map[string]bool // explicit enable/disable of safety obligation kinds
	Callback map[string][]Clause
	CallbackPre map[string][]Clause
	Before   map[string][]Clause // call-site obligations: before CALLEE requires E
	Opaque   []string // callee names whose effects are ignored (pure/no effect on modelled state)
	Pure     bool     // function has no effect on modelled heap (implies modifies nothing)
	Timeout  int      // per-obligation solver time limit override (seconds)
	Locks    int      // >0: the function may block on locks of this level or higher
	Invokes  string   // schema contract: calls this function-typed parameter exactly once and returns its result
	Invariants []Clause // iterator invariant of a callback: required at entry, ensured at exit, and used by 'iterates' callers
	Preserves []Clause // 'preserves E': E == old(E) after every call (reflexive and transitive, so also across an iteration)
	ImplParams      int  // with 'implementations N': the number of parameters (receiver included) an implementing method must have
	WritesArg       []int // 'writesarg N': the function stores into the variable argument N points to (an interface wrapping a pointer, or a pointer)
	Allocates       bool // the function may allocate objects reachable from its results
	After           map[string][]Clause // 'after CALLEE assume E': an assumption about what a callee returned (listed as unchecked)
	Implementations bool // interface method contract that also stands for every implementing method without a contract of its own
	Iterates string   // schema contract: calls this function-typed parameter any number of times (stops at its first error)
	NonBlocking []string // lock classes (Struct.field) whose acquisition in this function is assumed not to block
	AssumePre   map[string]bool // callee names whose preconditions are assumed (not checked) at the call sites in this function
	GhostMaps []string // fresh uninterpreted Int->Int maps available in the ensures clauses (per call site)
	Ghost    []string // misc flags
	used     bool
}

type SpecFn struct {
	Name    string
	PkgPath string
	Params  []Param
	Ret     string
	Body    Expr // nil => uninterpreted
	Src     string
	File    string
	Line    int
	Axioms  []Clause
}

type Lemma struct {
	Name    string
	PkgPath string
	Params  []Param
	Props   []string
	Arith   string
	Floats  string
	Body    Clause
	Assumes []Clause
	Timeout int
	File    string
	Line    int
}

type ContractSet struct {
	Funcs  map[string]*Contract // key: pkgpath + "::" + Key  (extern: "::" + full name)
	Specs  map[string]*SpecFn   // by name (global namespace)
	Lemmas []*Lemma
	Errors []string
	Trust  []string // trusted / assumed items for the evidence scan
	GlobalInvs []GlobalInv // assumed facts about package-level variables (set at initialisation, never reassigned)
	LockLevels map[string]int // Held.<Struct>.<field> -> level
	LongTerm   map[string]bool // lock classes held across calls by design: entry-held instances are outside the rank check
	Guarded    map[string]guardDecl // H.<Struct>.<field> -> guarding lock
}

type GlobalInv struct {
	PkgPath string
	C       Clause
}

type guardDecl struct {
	LockField string // field name of the same struct holding the mutex
	ReadOK    bool   // shared mode suffices for reads
}

func NewContractSet() *ContractSet {
	return &ContractSet{Funcs: map[string]*Contract{}, Specs: map[string]*SpecFn{}, LockLevels: map[string]int{}, LongTerm: map[string]bool{}, Guarded: map[string]guardDecl{}}
}

func (cs *ContractSet) errf(file string, line int, f string, a ...any) {
	cs.Errors = append(cs.Errors, fmt.Sprintf("%s:%d: %s", file, line, fmt.Sprintf(f, a...)))
}

// ParseContractText parses the "//@" lines of one file. pkgPath is "" for extern files.
func (cs *ContractSet) ParseContractText(file, pkgPath, pkgName, text string) {
	type rawLine struct {
		s    string
		line int
	}
	var lines []rawLine
	for i, l := range strings.Split(text, "\n") {
		t := strings.TrimSpace(l)
		if strings.HasPrefix(t, "//@+") {
			if len(lines) == 0 {
				cs.errf(file, i+1, "continuation without a preceding line")
				continue
			}
			lines[len(lines)-1].s += " " + strings.TrimSpace(t[4:])
			continue
		}
		if strings.HasPrefix(t, "//@") {
			lines = append(lines, rawLine{strings.TrimSpace(t[3:]), i + 1})
		}
	}
	var cur *Contract
	var curLemma *Lemma
	var curSpec *SpecFn
	for _, rl := range lines {
		s := rl.s
		if s == "" {
			continue
		}
		kw, rest := splitKw(s)
		mkClause := func(src string) (Clause, bool) {
			e, err := ParseSpec(src)
			if err != nil {
				cs.errf(file, rl.line, "%v", err)
				return Clause{}, false
			}
			return Clause{Src: src, E: e, File: file, Line: rl.line}, true
		}
		switch kw {
		case "func":
			cur = &Contract{Key: rest, PkgPath: pkgPath, File: file, Line: rl.line, Loops: map[int]*LoopSpec{}, Safety: map[string]bool{}, Callback: map[string][]Clause{}, CallbackPre: map[string][]Clause{}, Before: map[string][]Clause{}, Arith: "int", Floats: "fp"}
			curLemma, curSpec = nil, nil
			k := pkgPath + "::" + rest
			if _, dup := cs.Funcs[k]; dup {
				cs.errf(file, rl.line, "duplicate contract for %s", rest)
			}
			cs.Funcs[k] = cur
		case "spec":
			// spec NAME(params) RET [= body]
			sf, err := parseSpecDecl(rest)
			if err != nil {
				cs.errf(file, rl.line, "%v", err)
				continue
			}
			sf.PkgPath, sf.File, sf.Line = pkgPath, file, rl.line
			if _, dup := cs.Specs[sf.Name]; dup {
				cs.errf(file, rl.line, "duplicate spec function %s", sf.Name)
			}
			cs.Specs[sf.Name] = sf
			cur, curLemma, curSpec = nil, nil, sf
		case "axiom":
			if curSpec == nil {
				cs.errf(file, rl.line, "axiom outside a spec declaration")
				continue
			}
			if c, ok := mkClause(rest); ok {
				curSpec.Axioms = append(curSpec.Axioms, c)
				cs.Trust = append(cs.Trust, fmt.Sprintf("axiom on spec function %s: %s", curSpec.Name, rest))
			}
		case "lemma":
			// lemma NAME(params): body
			i := strings.Index(rest, "(")
			j := matchParen(rest, i)
			if i < 0 || j < 0 {
				cs.errf(file, rl.line, "bad lemma declaration")
				continue
			}
			lm := &Lemma{Name: strings.TrimSpace(rest[:i]), PkgPath: pkgPath, File: file, Line: rl.line, Arith: "int", Floats: "fp"}
			ps, err := parseParams(rest[i+1 : j])
			if err != nil {
				cs.errf(file, rl.line, "%v", err)
				continue
			}
			lm.Params = ps
			body := strings.TrimSpace(rest[j+1:])
			body = strings.TrimPrefix(body, ":")
			if c, ok := mkClause(strings.TrimSpace(body)); ok {
				lm.Body = c
			}
			cs.Lemmas = append(cs.Lemmas, lm)
			cur, curSpec, curLemma = nil, nil, lm
		case "property":
			ids := strings.Fields(rest)
			if cur != nil {
				cur.Props = append(cur.Props, ids...)
			} else if curLemma != nil {
				curLemma.Props = append(curLemma.Props, ids...)
			} else {
				cs.errf(file, rl.line, "property outside func/lemma")
			}
		case "arith":
			if cur != nil {
				cur.Arith = rest
			} else if curLemma != nil {
				curLemma.Arith = rest
			}
		case "floats":
			if cur != nil {
				cur.Floats = rest
			} else if curLemma != nil {
				curLemma.Floats = rest
			}
		case "assume":
			if curLemma != nil {
				if c, ok := mkClause(rest); ok {
					curLemma.Assumes = append(curLemma.Assumes, c)
				}
			} else {
				cs.errf(file, rl.line, "assume is only allowed as a lemma hypothesis")
			}
		case "requires":
			if cur == nil {
				cs.errf(file, rl.line, "requires outside func")
				continue
			}
			if c, ok := mkClause(rest); ok {
				cur.Requires = append(cur.Requires, c)
			}
		case "ensures":
			if cur == nil {
				cs.errf(file, rl.line, "ensures outside func")
				continue
			}
			if c, ok := mkClause(rest); ok {
				cur.Ensures = append(cur.Ensures, c)
			}
		case "modifies":
			if cur == nil {
				cs.errf(file, rl.line, "modifies outside func")
				continue
			}
			cur.HasMod = true
			for _, m := range strings.Split(rest, ",") {
				m = strings.TrimSpace(m)
				if m != "" && m != "nothing" {
					cur.Modifies = append(cur.Modifies, m)
					if strings.HasPrefix(m, "contents(") {
						cur.Allocates = true // append may move the elements to a fresh backing array
					}
				}
			}
		case "loop":
			if cur == nil {
				cs.errf(file, rl.line, "loop outside func")
				continue
			}
			// loop K invariant E    (also "loop K: invariant E")
			f := strings.Fields(rest)
			if len(f) < 3 {
				cs.errf(file, rl.line, "bad loop clause")
				continue
			}
			k, err := strconv.Atoi(strings.TrimSuffix(f[0], ":"))
			if err != nil || strings.TrimSuffix(f[1], ":") != "invariant" {
				cs.errf(file, rl.line, "bad loop clause (want: loop K invariant E)")
				continue
			}
			idx := strings.Index(rest, "invariant")
			src := strings.TrimSpace(rest[idx+len("invariant"):])
			if c, ok := mkClause(src); ok {
				ls := cur.Loops[k]
				if ls == nil {
					ls = &LoopSpec{}
					cur.Loops[k] = ls
				}
				ls.Invariants = append(ls.Invariants, c)
			}
		case "locklevel":
			f := strings.Fields(rest)
			if len(f) != 2 {
				cs.errf(file, rl.line, "locklevel Struct.field N")
				continue
			}
			n, err := strconv.Atoi(f[1])
			if err != nil {
				cs.errf(file, rl.line, "locklevel needs a number")
				continue
			}
			cs.LockLevels[lockKeyOfDecl(pkgName+"."+f[0])] = n
		case "globalinv":
			if c, ok := mkClause(rest); ok {
				cs.GlobalInvs = append(cs.GlobalInvs, GlobalInv{PkgPath: pkgPath, C: c})
				cs.Trust = append(cs.Trust, fmt.Sprintf("assumed package-level invariant (%s): %s", pkgPath, rest))
			}
		case "immutable":
			// immutable Struct.field <justification>: the field is never written after construction
			// (assumed): it keeps its value across calls to code without a contract
			f := strings.Fields(rest)
			if len(f) == 0 {
				cs.errf(file, rl.line, "immutable Struct.field <justification>")
				continue
			}
			immutableKeys["H."+pkgName+"."+f[0]] = true
			cs.Trust = append(cs.Trust, fmt.Sprintf("field %s.%s assumed not to be written after construction: %s", pkgName, f[0], strings.Join(f[1:], " ")))
		case "longterm":
			f := strings.Fields(rest)
			if len(f) == 0 {
				cs.errf(file, rl.line, "longterm Struct.field <justification>")
				continue
			}
			cs.LongTerm[lockKeyOfDecl(pkgName+"."+f[0])] = true
			cs.Trust = append(cs.Trust, fmt.Sprintf("locks of class %s held at function entry are outside the acquisition-order check: %s", f[0], strings.Join(f[1:], " ")))
		case "guarded":
			// guarded Struct.field by lockfield [read]
			f := strings.Fields(rest)
			if len(f) < 3 || f[1] != "by" {
				cs.errf(file, rl.line, "guarded Struct.field by lockfield [read]")
				continue
			}
			cs.Guarded["H."+pkgName+"."+f[0]] = guardDecl{LockField: f[2], ReadOK: len(f) > 3 && f[3] == "read"}
		case "nonblocking":
			if cur != nil {
				f := strings.Fields(rest)
				if len(f) > 0 {
					cur.NonBlocking = append(cur.NonBlocking, pkgName+"."+f[0])
					cs.Trust = append(cs.Trust, fmt.Sprintf("%s: acquisition of %s assumed non-blocking: %s", cur.Key, f[0], strings.Join(f[1:], " ")))
				}
			}
		case "assumepre":
			// assumepre CALLEE justification: the preconditions of CALLEE are assumed, not checked, at its
			// call sites in this function (a listed assumption)
			if cur != nil {
				f := strings.Fields(rest)
				if len(f) > 0 {
					if cur.AssumePre == nil {
						cur.AssumePre = map[string]bool{}
					}
					cur.AssumePre[f[0]] = true
					cs.Trust = append(cs.Trust, fmt.Sprintf("%s: preconditions of %s assumed at its call sites: %s", cur.Key, f[0], strings.Join(f[1:], " ")))
				}
			}
		case "iterates":
			if cur != nil {
				cur.Iterates = strings.TrimSpace(rest)
			}
		case "preserves":
			if cur == nil {
				cs.errf(file, rl.line, "preserves outside func")
				continue
			}
			if c, ok := mkClause("(" + rest + ") == old(" + rest + ")"); ok {
				cur.Preserves = append(cur.Preserves, c)
				cur.Ensures = append(cur.Ensures, c)
			}
		case "invariant":
			// invariant E : an iterator invariant (both a precondition and a postcondition); a caller that
			// hands this function to an 'iterates' callee establishes it before and may assume it after
			if cur == nil {
				cs.errf(file, rl.line, "invariant outside func")
				continue
			}
			if c, ok := mkClause(rest); ok {
				cur.Invariants = append(cur.Invariants, c)
				cur.Requires = append(cur.Requires, c)
				cur.Ensures = append(cur.Ensures, c)
			}
		case "invokes":
			if cur != nil {
				cur.Invokes = strings.TrimSpace(rest)
			}
		case "locks":
			n, _ := strconv.Atoi(rest)
			if cur != nil {
				cur.Locks = n
			}
		case "timeout":
			n, _ := strconv.Atoi(rest)
			if cur != nil {
				cur.Timeout = n
			} else if curLemma != nil {
				curLemma.Timeout = n
			}
		case "ghostmap":
			if cur != nil {
				cur.GhostMaps = append(cur.GhostMaps, strings.Fields(rest)...)
			}
		case "inline":
			if cur != nil {
				cur.Inline = true
			}
		case "pure":
			if cur != nil {
				cur.Pure = true
				cur.HasMod = true
			}
		case "allocates":
			if cur != nil {
				cur.Allocates = true
			}
		case "writesarg":
			if cur != nil {
				for _, f := range strings.Fields(rest) {
					if n, err := strconv.Atoi(f); err == nil {
						cur.WritesArg = append(cur.WritesArg, n)
					}
				}
				cur.Allocates = true
			}
		case "implementations":
			if cur != nil {
				cur.Implementations = true
				cur.ImplParams, _ = strconv.Atoi(strings.TrimSpace(rest))
				cs.Trust = append(cs.Trust, fmt.Sprintf("interface method contract assumed for every implementation that has no contract of its own: %s %s", pkgPath, cur.Key))
			}
		case "trusted":
			if cur != nil {
				cur.Trusted = true
				cs.Trust = append(cs.Trust, fmt.Sprintf("trusted contract (body not verified): %s %s", pkgPath, cur.Key))
			}
		case "safety":
			if cur != nil {
				for _, k := range strings.Fields(rest) {
					if strings.HasPrefix(k, "-") {
						cur.Safety[k[1:]] = false
					} else {
						cur.Safety[strings.TrimPrefix(k, "+")] = true
					}
				}
			}
		case "after":
			// after CALLEE assume E
			if cur == nil {
				cs.errf(file, rl.line, "after outside func")
				continue
			}
			f := strings.SplitN(rest, " ", 3)
			if len(f) < 3 || f[1] != "assume" {
				cs.errf(file, rl.line, "bad clause (want: after CALLEE assume E)")
				continue
			}
			if c, ok := mkClause(f[2]); ok {
				if cur.After == nil {
					cur.After = map[string][]Clause{}
				}
				cur.After[f[0]] = append(cur.After[f[0]], c)
				cs.Trust = append(cs.Trust, fmt.Sprintf("%s %s: assumed about the result of %s: %s", pkgPath, cur.Key, f[0], f[2]))
			}
		case "before":
			// before CALLEE requires E
			if cur == nil {
				cs.errf(file, rl.line, "before outside func")
				continue
			}
			f := strings.SplitN(rest, " ", 3)
			if len(f) < 3 || f[1] != "requires" {
				cs.errf(file, rl.line, "bad clause (want: before CALLEE requires E)")
				continue
			}
			if c, ok := mkClause(f[2]); ok {
				cur.Before[f[0]] = append(cur.Before[f[0]], c)
			}
		case "callback":
			// callback NAME ensures E   |  callback NAME requires E
			if cur == nil {
				cs.errf(file, rl.line, "callback outside func")
				continue
			}
			f := strings.SplitN(rest, " ", 3)
			if len(f) < 3 || (f[1] != "ensures" && f[1] != "requires") {
				cs.errf(file, rl.line, "bad callback clause (want: callback NAME ensures|requires E)")
				continue
			}
			if c, ok := mkClause(f[2]); ok {
				if f[1] == "requires" {
					cur.CallbackPre[f[0]] = append(cur.CallbackPre[f[0]], c)
				} else {
					cur.Callback[f[0]] = append(cur.Callback[f[0]], c)
				}
			}
		case "opaque":
			if cur != nil {
				cur.Opaque = append(cur.Opaque, strings.Fields(rest)...)
			}
		case "ghost":
			if cur != nil {
				cur.Ghost = append(cur.Ghost, rest)
			}
		default:
			cs.errf(file, rl.line, "unknown contract keyword %q", kw)
		}
	}
}

func splitKw(s string) (string, string) {
	i := strings.IndexAny(s, " \t")
	if i < 0 {
		return s, ""
	}
	return s[:i], strings.TrimSpace(s[i+1:])
}

func matchParen(s string, i int) int {
	if i < 0 || i >= len(s) || s[i] != '(' {
		return -1
	}
	d := 0
	for j := i; j < len(s); j++ {
		switch s[j] {
		case '(':
			d++
		case ')':
			d--
			if d == 0 {
				return j
			}
		}
	}
	return -1
}

func parseParams(s string) ([]Param, error) {
	var ps []Param
	s = strings.TrimSpace(s)
	if s == "" {
		return nil, nil
	}
	// split on top-level commas
	depth := 0
	start := 0
	var parts []string
	for i := 0; i < len(s); i++ {
		switch s[i] {
		case '(', '[', '{':
			depth++
		case ')', ']', '}':
			depth--
		case ',':
			if depth == 0 {
				parts = append(parts, s[start:i])
				start = i + 1
			}
		}
	}
	parts = append(parts, s[start:])
	for _, p := range parts {
		p = strings.TrimSpace(p)
		i := strings.IndexAny(p, " \t")
		if i < 0 {
			return nil, fmt.Errorf("parameter %q needs a type", p)
		}
		ps = append(ps, Param{Name: p[:i], Type: strings.TrimSpace(p[i+1:])})
	}
	return ps, nil
}

func parseSpecDecl(rest string) (*SpecFn, error) {
	i := strings.Index(rest, "(")
	j := matchParen(rest, i)
	if i < 0 || j < 0 {
		return nil, fmt.Errorf("bad spec declaration %q", rest)
	}
	sf := &SpecFn{Name: strings.TrimSpace(rest[:i]), Src: rest}
	ps, err := parseParams(rest[i+1 : j])
	if err != nil {
		return nil, err
	}
	sf.Params = ps
	tail := strings.TrimSpace(rest[j+1:])
	if k := strings.Index(tail, "="); k >= 0 && !strings.HasPrefix(tail[k:], "==") {
		sf.Ret = strings.TrimSpace(tail[:k])
		body, err := ParseSpec(strings.TrimSpace(tail[k+1:]))
		if err != nil {
			return nil, err
		}
		sf.Body = body
	} else {
		sf.Ret = tail
	}
	if sf.Ret == "" {
		return nil, fmt.Errorf("spec %s needs a result type", sf.Name)
	}
	return sf, nil
}

// LoadExternSpecs reads /verif/extern/*.spec
func (cs *ContractSet) LoadExternSpecs(dir string) {
	files, _ := filepath.Glob(filepath.Join(dir, "*.spec"))
	sort.Strings(files)
	for _, f := range files {
		b, err := os.ReadFile(f)
		if err != nil {
			cs.Errors = append(cs.Errors, err.Error())
			continue
		}
		// in .spec files the lines may omit the leading "//"
		var sb strings.Builder
		for _, l := range strings.Split(string(b), "\n") {
			t := strings.TrimSpace(l)
			if strings.HasPrefix(t, "@") {
				sb.WriteString("//" + t + "\n")
			} else {
				sb.WriteString(l + "\n")
			}
		}
		cs.ParseContractText(f, "", "", sb.String())
	}
}

// immutableKeys: heap keys of fields declared immutable (they survive a whole-heap havoc)
var immutableKeys = map[string]bool{}
