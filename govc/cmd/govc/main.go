package main

import (
	"flag"
	"fmt"
	"os"
	"strings"

	"verif/govc/internal/vc"
)

func main() {
	if len(os.Args) < 2 {
		fmt.Fprintln(os.Stderr, "usage: govc dev|check|ssa ...")
		os.Exit(2)
	}
	switch os.Args[1] {
	case "dev":
		dev(os.Args[2:])
	case "check":
		os.Exit(vc.CheckMain(os.Args[2:]))
	case "replay":
		os.Exit(vc.ReplayMain(os.Args[2:]))
	case "ssa":
		ssaDump(os.Args[2:])
	default:
		fmt.Fprintln(os.Stderr, "unknown command")
		os.Exit(2)
	}
}

func dev(args []string) {
	fs := flag.NewFlagSet("dev", flag.ExitOnError)
	repo := fs.String("repo", "/repo", "repository")
	ext := fs.String("extern", "/verif/extern", "extern spec dir")
	filter := fs.String("f", "", "substring filter on unit names")
	prop := fs.String("p", "", "property filter")
	secs := fs.Int("t", 10, "solver timeout")
	show := fs.Bool("show", false, "print SMT of failing obligations")
	work := fs.String("work", "/verif/work/dev", "work dir")
	fs.Parse(args)
	eng, err := vc.Load(*repo, *ext, []string{"./..."})
	if err != nil {
		fmt.Fprintln(os.Stderr, "load:", err)
		os.Exit(2)
	}
	fmt.Printf("loaded in %.1fs; contracts: %d funcs, %d specs, %d lemmas\n", eng.LoadSecs, len(eng.CS.Funcs), len(eng.CS.Specs), len(eng.CS.Lemmas))
	for _, e := range eng.CS.Errors {
		fmt.Println("CONTRACT ERROR:", e)
	}
	units := eng.Units(*prop, *filter)
	var obls []*vc.Obligation
	for _, u := range units {
		for _, ud := range append(append([]string{}, u.Undecided...), u.UndecidedGoals...) {
			fmt.Printf("UNDECIDED %s: %s\n", u.Name, ud)
		}
		for _, o := range u.Obls {
			if *prop == "" || o.Cover || vc.HasProp(o.Props, *prop) {
				obls = append(obls, o)
			}
		}
	}
	res := vc.SolveAll(obls, *work, *secs, false, 8)
	bad := 0
	for _, r := range res {
		if r.O.Advisory {
			if r.Status == "cover-vacuous" {
				fmt.Printf("DEAD code at %[2]s: %[1]s (unreachable under the assumptions: dead code or contradictory assumptions)\n", r.O.Name, r.O.Pos)
			}
			continue
		}
		mark := "ok "
		if r.Status != "discharged" && r.Status != "cover-ok" {
			mark = "BAD"
			bad++
		}
		fmt.Printf("%s %-14s %-60s %-7s %5dms  %s\n", mark, r.Status, r.O.Name, r.Winner.Solver, r.Winner.Ms, trunc(r.O.Desc, 90))
		if mark == "BAD" {
			for _, a := range r.All {
				fmt.Printf("      %s: %s (%dms) %s\n", a.Solver, a.Result, a.Ms, trunc(strings.ReplaceAll(a.Output, "\n", " | "), 200))
			}
			fmt.Printf("      file: %s\n", r.File)
			if *show && r.Model != "" {
				fmt.Println(trunc(r.Model, 3000))
			}
		}
	}
	fmt.Printf("%d obligations, %d not ok\n", len(res), bad)
	for _, u := range units {
		for _, n := range u.NoteList() {
			fmt.Printf("note %s: %s\n", u.Name, n)
		}
	}
}

func trunc(s string, n int) string {
	if len(s) > n {
		return s[:n] + "..."
	}
	return s
}

func ssaDump(args []string) {
	eng, err := vc.Load("/repo", "/verif/extern", []string{"./..."})
	if err != nil {
		fmt.Fprintln(os.Stderr, "load:", err)
		os.Exit(2)
	}
	for _, a := range args {
		eng.DumpSSA(a, os.Stdout)
	}
}
