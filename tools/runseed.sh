#!/bin/bash
# runseed.sh <seedname> <Cxx>: applies /verif/seeded/<seedname>/patch.diff to /repo, runs the quick check, reverts.
name="$1"; prop="$2"
cd /repo || exit 2
[ -n "$(git status --porcelain)" ] && { echo "/repo not clean"; exit 2; }
git apply /verif/seeded/$name/patch.diff || { echo "patch does not apply"; exit 2; }
mkdir -p /tmp/seedrun
mkdir -p /tmp/seedrun/$name; ln -sfn /verif/extern /tmp/seedrun/$name/extern; cp /verif/known_findings.txt /tmp/seedrun/$name/ 2>/dev/null
/verif/bin/govc check -property "$prop" -tier quick -root /tmp/seedrun/$name 2>&1 | grep -E "^(VIOLATION|UNDECIDED|KNOWN|ENGINE|CONTRACT|property)" | cut -c1-300
git checkout -- . ; git status --porcelain | head -3
