#!/usr/bin/env python3
import json,sys
pid,d=sys.argv[1],sys.argv[2]
extra=sys.argv[3] if len(sys.argv)>3 else ""
for l in open('/verif/properties.jsonl'):
    p=json.loads(l)
    if p['id']==pid:
        t=open('/verif/tools/seed_prompt.txt').read()
        files=(p.get("anchors") or {}).get("files") or []
        if isinstance(files,list): files=", ".join(f if isinstance(f,str) else json.dumps(f) for f in files)
        print(t.replace('{dir}',d).replace('{pid}',pid).replace('{title}',p.get('title','')).replace('{statement}',p.get('statement',p.get('text',''))).replace('{files}',str(files))+("\n"+extra if extra else ""))
