#!/usr/bin/env python3
"""Generates /verif/MANIFEST.json from tools/claims.json (claimed properties) and
properties.jsonl (everything else goes to not_applicable with its recorded reason)."""
import json, os, subprocess
root = os.path.dirname(os.path.dirname(os.path.abspath(__file__)))
claims = json.load(open(os.path.join(root, "tools", "claims.json")))
props = [json.loads(l) for l in open(os.path.join(root, "properties.jsonl"))]
hooks_commits = subprocess.run(["git", "-C", "/repo", "log", "--format=%h %s", "--grep=^verif:"], capture_output=True, text=True).stdout.strip().splitlines()
m = {
    "version": 1,
    "setup_cmd": "./setup.sh",
    "hooks": {
        "guard": "verif",
        "enable": "go/packages is run with build flag -tags=verif; the tagged files zz_contracts_verif.go contain only a package clause and //@ contract comments (no executable code)",
        "baseline_off_cmd": json.load(open("/root/.vp/BASELINE.json"))["cmd"],
        "source_commits": [c.split()[0] for c in hooks_commits],
        "add_only": True,
    },
    "engines": [{"name": "govc", "path": "/verif/govc", "serves_properties": sorted(claims["claimed"].keys()),
                 "kind_free_text": "contract-based deductive verifier for Go written for this task: contracts as //@ comments, weakest-precondition style VC generation over go/ssa of the real code, obligations discharged by z3 4.8.12 / z3 5.1.0 / cvc5 raced"}],
    "checks": [],
    "not_applicable": [],
    "notes": claims.get("notes", ""),
}
for p in props:
    pid = p["id"]
    if pid in claims["claimed"]:
        c = claims["claimed"][pid]
        m["checks"].append({
            "property_id": pid,
            "quick_cmd": f"./check {pid} quick",
            "thorough_cmd": f"./check {pid} thorough",
            "evidence_file": f"/verif/evidence/{pid}.json",
            "replay_cmd_template": "./check replay {path}",
            "engine": "govc",
            "level_claimed": {"category": "proof", "text": c["text"], "design_ref": f"DESIGN.md §5 {pid}"},
            "level_note": c["note"],
            "technique": "contract-based deductive verification: //@ contracts on the real functions, VCs generated over go/ssa, discharged by z3/cvc5",
        })
    else:
        m["not_applicable"].append({"property_id": pid, "reason": claims["not_applicable"].get(pid, "contracts for this property are not built yet (see DESIGN.md appendix A build order); no obligation is claimed")})
json.dump(m, open(os.path.join(root, "MANIFEST.json"), "w"), indent=1)
print("claimed:", [c["property_id"] for c in m["checks"]])
