#!/usr/bin/env python3
"""Runs every confirmed seeded change (/verif/seeded/<name>/patch.diff) against the quick check of the
property it targets (applied to /repo, undone afterwards) and writes meta.json next to it."""
import json, os, subprocess, sys, glob, re
root = "/verif"
props = {json.loads(l)["id"]: json.loads(l) for l in open(f"{root}/properties.jsonl")}
only = sys.argv[1:] 
for d in sorted(glob.glob(f"{root}/seeded/*")):
    name = os.path.basename(d)
    if only and name not in only: continue
    prop = name.split("-")[0]
    if subprocess.run(["git", "-C", "/repo", "status", "--porcelain"], capture_output=True, text=True).stdout.strip():
        print("/repo not clean"); sys.exit(2)
    r = subprocess.run(["git", "-C", "/repo", "apply", f"{d}/patch.diff"], capture_output=True, text=True)
    if r.returncode != 0:
        print(name, "patch does not apply:", r.stderr[:200]); continue
    try:
        vroot = f"/tmp/seedrun/{name}"; os.makedirs(vroot, exist_ok=True)
        if not os.path.exists(f"{vroot}/extern"): os.symlink(f"{root}/extern", f"{vroot}/extern")
        subprocess.run(["cp", f"{root}/known_findings.txt", vroot])
        out = subprocess.run([f"{root}/bin/govc", "check", "-property", prop, "-tier", "quick", "-root", vroot], capture_output=True, text=True)
    finally:
        subprocess.run(["git", "-C", "/repo", "checkout", "--", "."])
    viol = [l.split("obligation=")[1].split()[0] for l in out.stdout.splitlines() if l.startswith("VIOLATION")]
    confirmed = [l for l in out.stdout.splitlines() if l.startswith("VIOLATION") and "no-failing-input-found" not in l]
    notes = open(f"{d}/notes.md").read() if os.path.exists(f"{d}/notes.md") else ""
    m = re.search(r"(?is)condition[^\n]*\n(.{0,900})", notes)
    meta = {
        "seed": name, "property": prop, "title": props[prop]["title"],
        "patch": "patch.diff", "demonstration": "demo_test.go.txt (goes to " + open(f"{d}/demo_path.txt").read().strip() + ")",
        "needs_to_manifest": (m.group(1).strip() if m else "see notes.md"),
        "confirmed_by": "tools/verifyseed.sh: existing suite passes with the change, the demonstration fails with it and passes without it (run in a scratch worktree under /tmp/seed)",
        "check_run": f"git -C /repo apply {d}/patch.diff; ./check {prop} quick; git -C /repo checkout -- .",
        "detected": out.returncode == 1 and len(viol) > 0,
        "violated_obligations": viol,
        "replayed_on_real_code": len(confirmed) > 0,
    }
    if os.path.exists(f"{d}/strengthened.txt"):
        meta["history"] = open(f"{d}/strengthened.txt").read().strip()
    if not meta["detected"] and os.path.exists(f"{d}/why_missed.txt"):
        meta["why_missed"] = open(f"{d}/why_missed.txt").read().strip()
    json.dump(meta, open(f"{d}/meta.json", "w"), indent=1)
    print(name, "DETECTED" if meta["detected"] else "MISSED", viol[:3])
