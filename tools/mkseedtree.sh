#!/bin/sh
# creates a scratch worktree of /repo for a seeding sub-agent, without the contract files
set -e
name="$1"
dir=/tmp/seed/$name
mkdir -p /tmp/seed
git -C /repo worktree add --detach "$dir" HEAD >/dev/null 2>&1
cd "$dir"
find . -name 'zz_contracts_verif.go' -delete
git add -A >/dev/null
git -c user.name=seed -c user.email=seed@x commit -qm "seed base (contract files removed)" >/dev/null
echo "$dir"
