#!/bin/bash
# verifyseed.sh <Cxx> : independently confirms a sub-agent's seeded change in /tmp/seed/<Cxx>
# (suite passes with change, demo fails with change, demo passes without), then stores it in /verif/seeded/<name>/
id="$1"; name="${2:-$1}"; d=/tmp/seed/$id
cd "$d" || exit 2
demo=$(git status --porcelain | grep 'zz_seed_demo_test.go' | awk '{print $2}' | head -1)
[ -z "$demo" ] && { echo "no demo test found"; exit 2; }
pkg=./$(dirname "$demo")
git diff -- . ':!SEED' ':!*zz_seed_demo_test.go' > /tmp/seed/$id.patch
echo "patch: $(wc -l < /tmp/seed/$id.patch) lines; demo: $demo"
mv "$demo" /tmp/seed/$id.demo.go
suite=$(go test -count=1 $(go list ./... 2>/dev/null | grep -v "/SEED") 2>&1 | grep -v loadhdf5 | grep -v "semadb/SEED" | grep -v "^FAIL$" | grep -E "^(FAIL|---|panic)" | head -5)
cp /tmp/seed/$id.demo.go "$demo"
if [ -n "$suite" ]; then echo "SUITE FAILS WITH CHANGE: $suite"; res_suite=fail; else echo "suite passes with change"; res_suite=pass; fi
if go test -count=1 -run 'SeedDemo|Seed' "$pkg" >/tmp/seed/$id.with.log 2>&1; then echo "DEMO PASSES WITH CHANGE (bad)"; res_with=pass; else echo "demo fails with change"; res_with=fail; fi
git stash push -q -- $(git diff --name-only -- . ':!SEED')
if go test -count=1 -run 'SeedDemo|Seed' "$pkg" >/tmp/seed/$id.without.log 2>&1; then echo "demo passes without change"; res_without=pass; else echo "DEMO FAILS WITHOUT CHANGE (bad)"; res_without=fail; fi
git stash pop -q
if [ "$res_suite" = pass ] && [ "$res_with" = fail ] && [ "$res_without" = pass ]; then
  out=/verif/seeded/$name; mkdir -p $out
  cp /tmp/seed/$id.patch $out/patch.diff; cp /tmp/seed/$id.demo.go $out/demo_test.go.txt
  [ -f SEED/notes.md ] && cp SEED/notes.md $out/notes.md
  echo "$demo" > $out/demo_path.txt
  echo "CONFIRMED -> $out"
else echo "NOT CONFIRMED"; exit 1; fi
