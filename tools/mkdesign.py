#!/usr/bin/env python3
"""Regenerates the generated regions of DESIGN.md: the as-built claim table (from tools/claims.json and
the last evidence files), the seeded-change table (from seeded/*/meta.json) and the per-property
'As built' lines in section 5."""
import json, os, re, glob
root = os.path.dirname(os.path.dirname(os.path.abspath(__file__)))
claims = json.load(open(f"{root}/tools/claims.json"))
props = [json.loads(l) for l in open(f"{root}/properties.jsonl")]
s = open(f"{root}/DESIGN.md").read()

def cell(t): return t.replace("|", "\\|").replace("\n", " ")
def region(s, name, body):
    a, b = f"<!-- BEGIN {name} -->", f"<!-- END {name} -->"
    i, j = s.index(a), s.index(b)
    return s[:i + len(a)] + "\n" + body + "\n" + s[j:]

rows = ["| id | obligations (last quick run) | decided by discharged obligations | assumed / not covered |", "|---|---|---|---|"]
for p in props:
    pid = p["id"]
    if pid in claims["claimed"]:
        c = claims["claimed"][pid]
        n = ""
        try:
            ev = json.load(open(f"{root}/evidence/{pid}.json"))
            n = f'{ev["coverage"]["discharged"]}/{ev["coverage"]["obligations"]} in {len(ev["coverage"]["functions_under_contract"])} units'
            if ev["coverage"].get("known_findings"): n += f', {len(ev["coverage"]["known_findings"])} known findings'
        except Exception: pass
        rows.append(f"| {pid} | {n} | {cell(c['text'])} | {cell(c['note'])} |")
    else:
        r = claims["not_applicable"].get(pid, "not built: no obligation is claimed (see §5 for the design that was not implemented)")
        rows.append(f"| {pid} | — | **not claimed** | {cell(r)} |")
s = region(s, "ASBUILT", "\n".join(rows))

rows = ["| seeded change | what it does (see `seeded/<name>/notes.md`) | quick check of its property | obligations that fail |", "|---|---|---|---|"]
nd = nt = 0
for d in sorted(glob.glob(f"{root}/seeded/*")):
    try: m = json.load(open(f"{d}/meta.json"))
    except Exception: continue
    what = ""
    try:
        notes = open(f"{d}/notes.md").read()
        mm = re.search(r"(?is)## (?:the |what the )?change[^\n]*\n+(.{0,400})", notes)
        what = (mm.group(1) if mm else notes[:300]).strip().split("\n\n")[0]
    except Exception: pass
    if m.get("how_to_read"): what = m["how_to_read"]
    nt += 1; nd += 1 if m["detected"] else 0
    hist = (" — " + m["history"]) if m.get("history") else ""
    rows.append(f"| {m['seed']} | {cell(what)[:420]} | {('**caught**' + hist) if m['detected'] else 'missed' + (': ' + m['why_missed'] if m.get('why_missed') else '')} | {cell(', '.join('`'+o+'`' for o in m['violated_obligations'][:3]))} |")
na = sum(1 for d in sorted(glob.glob(f"{root}/seeded/*")) if os.path.exists(f"{d}/meta.json") and json.load(open(f"{d}/meta.json")).get("detected") and not os.path.exists(f"{d}/strengthened.txt"))
rows.append(f"\n{nd} of {nt} seeded changes are caught by the quick check of the property they target; {na} of them were caught by the checks as they stood when the change was produced, the others only after the check was built or strengthened with the change known (stated per row).")
s = region(s, "SEEDED", "\n".join(rows))

for p in props:
    pid = p["id"]
    if pid in claims["claimed"]:
        line = f"*As built:* claimed — {claims['claimed'][pid]['text']} *Assumed / not covered:* {claims['claimed'][pid]['note']}"
    else:
        line = "*As built:* **not claimed** — " + claims["not_applicable"].get(pid, "the design below was not implemented; no obligation is claimed.")
    tag = f"<!-- ASBUILT {pid} -->"
    s = re.sub(re.escape(tag) + r".*\n", "", s)
    s = re.sub(rf"(### {pid} — [^\n]*\n)", lambda mo: mo.group(1) + tag + line.replace("\n", " ") + "\n", s, count=1)
open(f"{root}/DESIGN.md", "w").write(s)
print("DESIGN.md regions regenerated")
