#!/bin/sh
# builds the VC generator offline from vendored sources
set -e
cd "$(dirname "$0")/govc"
export PATH=/opt/veriftools/go1.26.8/bin:$PATH GOTOOLCHAIN=local GOPROXY=off GOSUMDB=off GOFLAGS=-mod=vendor
mkdir -p ../bin
go build -o ../bin/govc ./cmd/govc
echo "govc built"
