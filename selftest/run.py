#!/usr/bin/env python3
"""Must-fail selftest corpus: applies each mutant (a textual replacement in one /repo file)
to a scratch copy of /repo, runs the property's quick check against the copy and requires a
VIOLATION naming the expected obligation. Scratch copies live under $TMPDIR and are removed
immediately. Usage: selftest/run.py [-k substring] [-f file.json] [-j N]"""
import json, os, sys, subprocess, tempfile, shutil, glob, concurrent.futures
root = os.path.dirname(os.path.dirname(os.path.abspath(__file__)))
flt = ""
jobs = 2
only = ""
args = sys.argv[1:]
while args:
    a = args.pop(0)
    if a == "-k": flt = args.pop(0)
    elif a == "-j": jobs = int(args.pop(0))
    elif a == "-f": only = args.pop(0)
muts = []
for f in sorted(glob.glob(os.path.join(root, "selftest", "mutants", "*.json"))):
    if only and os.path.basename(f) != only: continue
    for m in json.load(open(f)):
        if flt in m["name"] or flt in m["property"]:
            muts.append(m)
def run(m):
    tmp = tempfile.mkdtemp(prefix="govc-selftest-")
    try:
        repo = os.path.join(tmp, "repo"); vroot = os.path.join(tmp, "verif")
        subprocess.run(["rsync", "-a", "--exclude", ".git", "/repo/", repo + "/"], check=True)
        os.makedirs(vroot)
        os.symlink(os.path.join(root, "extern"), os.path.join(vroot, "extern"))
        if os.path.exists(os.path.join(root, "known_findings.txt")):
            os.symlink(os.path.join(root, "known_findings.txt"), os.path.join(vroot, "known_findings.txt"))
        for ed in m.get("edits", [m]):
            p = os.path.join(repo, ed["file"])
            s = open(p).read()
            if s.count(ed["old"]) != 1:
                return (m, "BROKEN-MUTANT", f"pattern occurs {s.count(ed['old'])} times in {ed['file']}")
            open(p, "w").write(s.replace(ed["old"], ed["new"]))
        if m.get("must_compile", True):
            r = subprocess.run(["go", "build", "./" + os.path.dirname(m.get("edits", [m])[0]["file"])], cwd=repo, capture_output=True, text=True,
                               env=dict(os.environ, PATH="/opt/veriftools/go1.26.8/bin:"+os.environ["PATH"], GOTOOLCHAIN="local", GOFLAGS="-mod=mod", GOPROXY="off", GOSUMDB="off"))
            if r.returncode != 0:
                return (m, "BROKEN-MUTANT", "does not compile: " + r.stderr[-300:])
        r = subprocess.run([os.path.join(root, "bin", "govc"), "check", "-property", m["property"], "-tier", "quick", "-repo", repo, "-root", vroot],
                           capture_output=True, text=True)
        viol = [l for l in r.stdout.splitlines() if l.startswith("VIOLATION")]
        exp = m.get("expect", "")
        if r.returncode == 1 and any(exp in l for l in viol):
            return (m, "CAUGHT", "; ".join(l.split("obligation=")[1].split()[0] for l in viol)[:200])
        if r.returncode == 1:
            return (m, "CAUGHT-OTHER", "; ".join(l.split("obligation=")[1].split()[0] for l in viol)[:200])
        und = [l for l in r.stdout.splitlines() if l.startswith("UNDECIDED") or l.startswith("ENGINE") or l.startswith("CONTRACT")]
        return (m, "MISSED", f"exit={r.returncode} " + " | ".join(und)[:300])
    finally:
        shutil.rmtree(tmp, ignore_errors=True)
bad = 0
with concurrent.futures.ThreadPoolExecutor(max_workers=jobs) as ex:
    for m, status, info in ex.map(run, muts):
        print(f"{status:14s} {m['property']} {m['name']:40s} {info}")
        if status not in ("CAUGHT",) and not (status == "CAUGHT-OTHER" and m.get("expect", "") == ""):
            bad += 1
print(f"{len(muts)} mutants, {bad} not caught as expected")
sys.exit(1 if bad else 0)
