#!/usr/bin/env python3
"""Engine regression tests: small Go functions + contracts (selftest/engine/*.txt) are copied into a
scratch copy of /repo as package vt; every obligation must come out as listed in expect.txt
(default: discharged; the listed ones must NOT be discharged)."""
import os, subprocess, sys, tempfile, shutil, re
root = os.path.dirname(os.path.dirname(os.path.abspath(__file__)))
tmp = tempfile.mkdtemp(prefix="govc-engine-")
try:
    repo = os.path.join(tmp, "repo")
    subprocess.run(["rsync", "-a", "--exclude", ".git", "/repo/", repo + "/"], check=True)
    os.makedirs(os.path.join(repo, "vt"))
    shutil.copy(os.path.join(root, "selftest/engine/vt.go.txt"), os.path.join(repo, "vt/vt.go"))
    shutil.copy(os.path.join(root, "selftest/engine/zz_contracts_verif.go.txt"), os.path.join(repo, "vt/zz_contracts_verif.go"))
    mustfail = set(l.split()[0] for l in open(os.path.join(root, "selftest/engine/expect.txt")) if l.strip() and not l.startswith("#"))
    r = subprocess.run([os.path.join(root, "bin/govc"), "dev", "-repo", repo, "-p", "T01", "-work", os.path.join(tmp, "work")], capture_output=True, text=True)
    bad = 0; seen = set()
    for l in r.stdout.splitlines():
        m = re.match(r"(ok |BAD) (\S+)\s+(\S+)", l)
        if not m: 
            if l.startswith("UNDECIDED") or l.startswith("CONTRACT"): print(l); bad += 1
            continue
        status, name = m.group(2), m.group(3)
        if "#cover" in name: continue
        seen.add(name)
        if name in mustfail:
            if status == "discharged": print("UNEXPECTED PASS", name); bad += 1
        elif status != "discharged": print("UNEXPECTED FAIL", name, status); bad += 1
    for n in mustfail - seen: print("MISSING expected-failing obligation", n); bad += 1
    print(f"engine tests: {len(seen)} obligations, {len(mustfail)} expected failures, {bad} problems")
    sys.exit(1 if bad else 0)
finally:
    shutil.rmtree(tmp, ignore_errors=True)
